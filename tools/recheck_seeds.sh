#!/bin/bash
# tools/recheck_seeds.sh [seed-id ...]   -- re-check stored seeded changes on the current machinery
# For each seeded/<id>/: scratch worktree of /repo HEAD under /tmp (removed afterwards), apply patch.diff
# (3-way fallback when context lines have moved), run the bounded part of the seed's property (seed 0, /venv
# interpreter); if that stays quiet, run the full ./check with VERIF_REPO on the changed tree (and, when that
# exits 0 too, the checks whose functions the patch touches).  Nothing is written under /verif except
# evidence/scratch/ and replays/ (both ignored).  One line per seed on stdout:
#   <id> bounded|check|other:<prop>|MISSED|NOAPPLY
# BSEED=<n> picks the seed of the bounded part; STAGE1_ONLY=1 skips stage 2 (to see which catches depend on the draw).
# Stage 1 runs 12 seeds at a time (the bounded part is one process); stage 2 (16-process pool) runs serially.
V=/verif
cd "$V" || exit 2
ids=("$@"); [ ${#ids[@]} -eq 0 ] && ids=($(ls seeded))
res=$(mktemp -d /tmp/recheck.XXXXXX)
stage1() {
  id="$1"; prop="${id%%-*}"; wt="$res/wt_$id"
  git -C /repo worktree add -q --detach "$wt" HEAD 2>/dev/null || { echo "$id NOWORKTREE" > "$res/$id.r"; return; }
  if ! git -C "$wt" apply "$V/seeded/$id/patch.diff" 2>/dev/null; then
    if git -C "$wt" apply --3way "$V/seeded/$id/patch.diff" >/dev/null 2>&1; then git -C "$wt" reset -q
    else echo "$id NOAPPLY" > "$res/$id.r"; git -C /repo worktree remove --force "$wt"; return; fi
  fi
  n=$(PYTHONPATH="$wt:$V" VERIF_REPO="$wt" /venv/bin/python "$V/replay/bounded.py" "$prop" --tier quick --seed "${BSEED:-0}" 2>/dev/null \
      | python3 -c "import json,sys; print(len(json.loads(sys.stdin.read().strip().split('\n')[-1])['failures']))" 2>/dev/null)
  if [ -n "$n" ] && [ "$n" != "0" ]; then echo "$id bounded" > "$res/$id.r"; git -C /repo worktree remove --force "$wt"
  else echo "$id PENDING" > "$res/$id.r"; fi
}
running=0
for id in "${ids[@]}"; do
  stage1 "$id" &
  running=$((running+1)); [ $running -ge 12 ] && { wait -n; running=$((running-1)); }
done
wait
for id in "${ids[@]}"; do
  r=$(cat "$res/$id.r")
  if [ "$r" = "$id PENDING" ] && [ -n "${STAGE1_ONLY:-}" ]; then
    git -C /repo worktree remove --force "$res/wt_$id"; r="$id quiet-at-seed-${BSEED:-0}"
  elif [ "$r" = "$id PENDING" ]; then
    prop="${id%%-*}"; wt="$res/wt_$id"; r="$id MISSED"
    VERIF_REPO="$wt" ./check "$prop" --tier quick >/dev/null 2>&1; rc=$?
    if [ $rc -eq 1 ]; then r="$id check"
    else
      n=0
      for q in $(python3 "$V/tools/touched_props.py" "$wt" "$V/seeded/$id/patch.diff"); do
        [ "$q" = "$prop" ] && continue
        n=$((n+1)); [ $n -gt 6 ] && break
        VERIF_REPO="$wt" ./check "$q" --tier quick >/dev/null 2>&1
        [ $? -eq 1 ] && { r="$id other:$q"; break; }
      done
      [ "$r" = "$id MISSED" ] && r="$id MISSED(check exit $rc)"
    fi
    git -C /repo worktree remove --force "$wt"
  fi
  echo "$r"
done
rm -rf "$res"
git -C /repo worktree prune
