#!/usr/bin/env python3
"""regenerate MANIFEST.json from the table below (kept in one place so that it stays valid)"""
import json, os
HERE = os.path.dirname(os.path.dirname(os.path.abspath(__file__)))
BASE = "cd /repo && /venv/bin/python -m pytest -ra -q -p no:cacheprovider --timeout=900 --continue-on-collection-errors"

TECH = "contract-based deductive verification: AST->SMT verification conditions from /repo source, z3 + cvc5"
ENV = ("Assumes the environment contracts E1-E9 of DESIGN 4.3 (documented behaviour of asyncio.wait/create_task/Task.cancel/gather/Queue, job bodies "
       "return or raise and do not tamper with the tree), cooperative scheduling (A-COOP), wall clock = loop clock with real arithmetic (A-CLOCK), "
       "the footprint/rely argument of DESIGN 4.4 (other coroutines write nothing this activation reads except task states, the clock and _running), "
       "the python-semantics encoding of DESIGN 3.3 and the K-lemma instances; admissible tree = closed, acyclic, fresh members at every level. "
       "co_run uses _set_sched_ids (for its messages only) under an assumed frame-only contract. ")
CLAIMED = {
 'C01': dict(cat='proof', design='6/C01',
   text="Loop invariants I2 (one task per job, linked both ways) and I3 (a member has a task only if every requirement's task is finished) of "
        "PureScheduler.co_run, established by the entry loop and preserved by the candidate loop and by every suspension (rely), with the contracts of "
        "is_done, _create_task, _backlinks and wrapped; a body is entered only by wrapped, after its task exists. Discharged for an arbitrary member set and "
        "requirement relation. A nested scheduler is a member whose body contract is the same co_run contract one level down. Bounded replay of real runs in "
        "virtual time (both interpreters) runs alongside and is not counted as proof.",
   note=ENV + "Residual: that asyncio runs a task's coroutine only after create_task returned (E2).", tech=TECH),
 'C02': dict(cat='proof', design='6/C02',
   text="co_run: I2 makes _create_task reachable only for a member without a task (guard is_scheduled), so no member gets two tasks; wrapped calls the body "
        "exactly once on its normal path and at most once otherwise; Q-true: success implies every non-forever member has a finished delivered task "
        "(counting invariant I5 + pigeonhole lemma K9) and no delivered critical failure.", note=ENV, tech=TECH),
 'C03': dict(cat='proof', design='6/C03',
   text="What is proved is the scheduler's side of progress: asyncio.wait is never called on an empty set (I1, from the eager invariant I4, closedness and "
        "acyclicity instantiated at the members without a task, counting lemma K8); wrapped gives its window slot back on every exit (return, exception, "
        "cancellation); every wait is armed with the remaining timeout. Liveness of the environment itself is assumed. Hang detection on real runs in "
        "virtual time (bounded) runs alongside.",
   note=ENV + "Residual: a pending task whose body terminates eventually completes, a blocked Queue.put is woken (E5 liveness), cancelled bodies end (A-HONOUR).",
   tech=TECH),
 'C04': dict(cat='proof', design='6/C04',
   text="Exit contracts of PureScheduler.co_run (Q-true / Q-false: the recorded cause is exactly timeout-elapsed or a delivered critical failure, never both, "
        "none after success) and of Scheduler.co_run (a non-critical scheduler returns the verdict; a critical one raises TimeoutError for a timeout and the very "
        "exception object of one of its critical members for a critical failure; the 'internal error' raise is unreachable), plus failed_time_out / "
        "failed_critical / why as functions of the recorded cause, for all timeouts >= 0.",
   note=ENV + "Reading: 'raised' means delivered by asyncio.wait (DESIGN 6.0).", tech=TECH),
 'C05': dict(cat='proof', design='6/C05',
   text="On the critical branch of co_run no _create_task call is reachable, _tidy_tasks asks every still-pending task to cancel at the instant the deciding "
        "wait returned (exact effect of Task.cancel in the contract of _tidy_tasks, zero-time contract of the gather in between), and the run returns only "
        "through _tidy_tasks and co_shutdown with all its tasks not pending (Q-clean). Bounded replay checks the instants on real runs.",
   note=ENV + "Residual: that a cancelled body actually stops (E4/A-HONOUR).", tech=TECH),
 'C06': dict(cat='other', design='6/C06',
   text="Proved mechanisms: wrapped gives the slot back when the body raises; is_done counts a raised requirement as done (I3); the exception object the task "
        "holds is the one the body raised; delivered non-critical failures never reach the abort branch (I1/loop 2). The relational statement itself (two runs "
        "differing only in outcomes have the same timed trace) is checked on metamorphic pairs of real runs in virtual time (bounded).",
   note=ENV + "Residual: equality of whole timed traces of two runs is not expressible as a contract on one call.", tech=TECH),
 'C07': dict(cat='proof', design='6/C07',
   text="Per-activation contract of Window.run_job.<locals>.wrapped against the asyncio.Queue contract: the body is called only while this activation holds "
        "exactly one queue item (put returned, get not yet called), on every exit its contribution is zero; Window.__init__ makes a queue whose maxsize is the "
        "window (0 for None); co_run makes one fresh Window per call and passes it to every _create_task of that call (I2: twin). Hence bodies in progress <= "
        "queue size <= maxsize.",
   note=ENV + "The summation step (bodies in progress <= sum of contributions = qsize) is the Owicki-Gries composition argument of DESIGN 6.0, on paper.", tech=TECH),
 'C08': dict(cat='proof', design='6/C08',
   text="_record_beginning sets the deadline to now + timeout at the start of this scheduler's own run; every wait is armed with deadline - now; the timeout "
        "branch is entered only from an empty batch, which E1 allows only once the timeout elapsed; then the same abort contract as C05 and the timeout cause is "
        "recorded (also for timeout 0).", note=ENV, tech=TECH),
 'C09': dict(cat='proof', design='6/C09',
   text="Counting invariant I5 over non-forever members only; the success branch is taken at the first batch that completes the count, cancels what is still "
        "pending at that instant and creates nothing afterwards; the candidate rule (I3/I4) does not look at the forever flag.", note=ENV, tech=TECH),
 'C10': dict(cat='other', design='6/C10',
   text="Proved: Scheduler.co_run satisfies the body contract the parent assumes of any member (returns or raises, everything it started is finished: "
        "Q-clean), a non-critical nested scheduler returns False, a critical one raises the identical exception object of its critical member. The "
        "nested-vs-flattened timing equivalence is checked on pairs of real runs in virtual time (bounded).",
   note=ENV + "Residual: the flattening equivalence relates two programs; only the bounded twins speak to it.", tech=TECH),
 'C11': dict(cat='proof', design='6/C11',
   text="Q-clean is a postcondition on every exit of co_run, Scheduler.co_run, co_shutdown and _tidy_tasks: normal, exceptional, and CancelledError raised at each "
        "suspension point (every await has a cancellation edge in the generator). Five genuine defects found by these obligations were repaired in /repo "
        "(known_findings.json).", note=ENV, tech=TECH),
 'C12': dict(cat='other', design='6/C12',
   text="Proved: eager invariant I4 (a member without a task is held back by an undelivered requirement) at every loop head, BL (_backlinks), no suspension "
        "between entry and the first tasks, slot conservation in wrapped. 'At the very instant' and 'no eligible job waits while a slot is free' additionally need "
        "asyncio's zero-delay delivery; they are measured on real runs in virtual time (bounded).",
   note=ENV + "Residual: timing clauses of E1/E2/E5.", tech=TECH),
 'C13': dict(cat='proof', design='6/C13',
   text="Contract of co_shutdown: one shutdown task per member exactly when _did_shutdown was not set, none and True otherwise; no task of it left pending on any "
        "exit; result True iff no handler was cancelled; the wait is armed with shutdown_timeout; co_run calls it on every normal exit after its own tasks are "
        "finished.", note=ENV + "Handlers that raise: documented as unspecified.", tech=TECH),
 'C14': dict(cat='proof', design='6/C14',
   text="Each accessor is verified to be the stated function of (_task, task state, _running); wrapped sets _running only after it got its slot and returns / "
        "raises exactly what the body did; _create_task links job and task without suspension; _reset_tasks. Monotonicity under the rely. Sampled on real runs "
        "at every trace event (bounded).", note=ENV + "First run of each job object only (_running is not reset).", tech=TECH),
 'C15': dict(cat='proof', design='6/C15',
   text="Contracts on _reset_marks, topological_order (generator, as a procedure over a ghost yield log) and check_cycles; "
        "loop invariants T0-T4 discharged for an uninterpreted job set and requirement relation (no bound on the graph). "
        "Postconditions: normal exhaustion => every member yielded exactly once, positions form a linear extension, and no "
        "non-empty self-supporting subset exists (acyclic); raise => the unmarked members are such a subset (cyclic); "
        "termination variant of the marking loop. Scheduler.check_cycles (nested): True => every scheduler of the subtree is acyclic, False => some "
        "scheduler of the subtree has a cycle, through a consumer loop over the generator (eager model with a generator-undisturbed obligation). "
        "_set_sched_ids: ids strictly increase along requirements. A bounded concrete cross-check of the real functions (all digraphs <= 4 nodes) "
        "runs alongside and is not counted as proof.",
   note="Assumes: closed scheduler (precondition, as in the statement); python semantics encoding of DESIGN 3.3 (ints mathematical, "
        "identity equality, arbitrary set iteration order); finite-cardinality lemma instances K2-K4; attribute reads do not raise. "
        "Not yet under contract: Scheduler.check_cycles recursion and _set_sched_ids/list() numbering (covered by the bounded part only).",
   tech=TECH),
 'C16': dict(cat='proof', design='6/C16',
   text="Contract of the recursive sanitize over the flat tree predicates (under/owner): afterwards every link set below the scheduler is the old one "
        "restricted to the members of its own scheduler (closed, and minimal: nothing between two members is removed), result True iff every object below was "
        "clean, frame = link sets below self only; recursion measured by height. The polarity defect D12 found by this contract was repaired.",
   note="Assumes the tree axioms L5 (lemmas/Tree.lean) for owner/under/height and the encoding of DESIGN 3.3.", tech=TECH),
 'C18': dict(cat='proof', design='6/C18',
   text="Relational postconditions of bypass_and_remove (exact new member set; exact new requirement relation: a downstream of the removed job gets its "
        "requirements minus the job plus the job's own requirements, everything else unchanged; stays closed; stays acyclic, by extending a self-supporting "
        "set of the new graph to one of the old graph), keep_only and keep_only_between (exact kept subset in terms of the least-closed-set results of the "
        "closure queries, exactly the old requirements among kept jobs, fresh member set object, closed, acyclic), using the contracts of requires, sanitize "
        "and the closures. Bounded cross-check on all DAGs <= 4 nodes and random operation sequences.",
   note="Assumes: closed scheduler, the removed job does not require itself, starts/ends are members (as in the statement), tree axioms L5, encoding of "
        "DESIGN 3.3. 'Precedence among the remaining jobs is unchanged' follows from the relational postcondition by lemma L3 (transitive closure under "
        "vertex bypass, lemmas/Bypass.lean); the bounded part checks it directly.", tech=TECH),
 'C19': dict(cat='proof', design='6/C19',
   text="Contracts on AbstractJob.requires (recursive, against the spec function `leaves` over arbitrarily nested lists/tuples/sets/Sequences: adds exactly "
        "the leaves except self, or with remove=True removes exactly them and raises KeyError only then), _add_one_requirement, Sequence._flatten (positional "
        "spec with an offset ghost), Sequence.__init__ / append / requires (exact chain edges, required= goes to the first job, scheduler registration), "
        "PureScheduler.update / add / remove, AbstractJob.__init__ (required=, scheduler=), PureScheduler.__init__ and Scheduler.__init__ (**kwds as a symbolic record). Three defects found by these contracts were repaired. Random programs against a reference model of the documented "
        "semantics run alongside (bounded).",
   note="Assumes: argument structures are finitely nested containers of jobs/Sequences/None whose set containers are plain local sets (ghost predicate ARG, "
        "input validity); two lemmas about the recursively defined offset function (monotone, invertible: lemmas/Offsets.lean); termination of the recursion of "
        "requires() over the nesting is not proved.",
   tech=TECH),
 'C20': dict(cat='other', design='6/C20',
   text="Mostly bounded. Under contract: PureScheduler.topological_order (every member yielded exactly once, requirements first), which orders the "
        "numbering, the node statements and the listing; and the numbering itself: _set_sched_ids / Scheduler._set_sched_id / AbstractJob._set_sched_id "
        "assign tree-wide pairwise distinct numbers (each subtree a contiguous interval, a scheduler before its content, a requirement before what "
        "requires it), for trees of any size and depth; the node counts behind the id width (PureScheduler._total_length = number of nodes below, "
        "Scheduler._job_count = subtree size, verified on the mechanically desugared sum(...)); and PureScheduler._middle_index >= 0, which keeps the "
        "variable the edge anchor is read from bound. The statement itself is about the text dot_format() returns and what list() prints; no contract within "
        "reach of the SMT encoding decides a string grammar, so the deciding part is a bounded check of the real code: an independent DOT-subset parser "
        "reads the output back and compares nodes, clusters (nesting), edges (with ltail/lhead resolved), labels after unquoting and the flag attributes with "
        "the tree, and the output of list() is read back, over the enumerated trees stated in the evidence. Labelled bounded, never counted as proved.",
   note="Bounded: trees up to depth 3, <= 4 members per level, 27 label strings. dot_format() raises for a nested scheduler without any atomic job that takes "
        "part in a requirement (known finding, listed in known_findings.json). 'Syntactically valid' means accepted by the parser in replay/dotcheck.py, "
        "written from the DOT grammar, and, where the graphviz dot binary is present (recorded per case in the evidence), rendered by it and read back.",
   tech="bounded check of the real code standing in for contracts (DOT-subset parser + structural comparison, exhaustive small trees and seeded random trees); "
        "contract-based deductive verification (AST->SMT, z3 + cvc5) for topological_order, the numbering, the node counts and _middle_index"),
 'C17': dict(cat='proof', design='6/C17',
   text="Contracts on _backlinks, _neighbours (specialised for the two attribute names), predecessors, successors, "
        "_neighbours_closure, predecessors_upstream, successors_downstream, entry_jobs, exit_jobs. Closures are specified as least "
        "sets closed under the neighbour relation (both inclusions, the 'least' direction for an arbitrary closed set); all loop "
        "invariants and the termination variant are discharged without bound on the graph.",
   note="Assumes: closed scheduler for the successor-based queries, start jobs are members (as in the statement), encoding of DESIGN 3.3, "
        "K-lemma instances. 'Least closed set = reachable through >= 1 links' is lemma L2 (paper, not SMT). iterate_jobs / _iterate_jobs are "
        "under contract as generators (every node of the tree yielded exactly once, schedulers iff asked) over the tree vocabulary owner/under (L5).", tech=TECH),
}

def main():
    props = [json.loads(l) for l in open(os.path.join(HERE, 'properties.jsonl'))]
    checks, na = [], []
    for p in props:
        pid = p['id']
        if pid in CLAIMED:
            c = CLAIMED[pid]
            checks.append({
                'property_id': pid,
                'quick_cmd': './check %s --tier quick' % pid,
                'thorough_cmd': './check %s --tier thorough' % pid,
                'evidence_file': 'evidence/%s.json' % pid,
                'replay_cmd_template': './check --replay {path}',
                'engine': 'pyvc',
                'level_claimed': {'category': c['cat'], 'text': c['text'], 'design_ref': c['design']},
                'level_note': c['note'],
                'technique': c['tech'],
            })
        else:
            na.append({'property_id': pid, 'reason': 'check not built yet (framework under construction; see DESIGN.md section 11)'})
    m = {
        'version': 1,
        'setup_cmd': './setup.sh',
        'hooks': {'guard': 'ASYNCIOJOBS_VERIF',
                  'enable': 'no source hook is needed: contracts are sidecar files under /verif/contracts and the checks read /repo source directly',
                  'baseline_off_cmd': BASE, 'source_commits': [], 'add_only': True},
        'engines': [{'name': 'pyvc', 'path': 'pyvc/', 'serves_properties': sorted(CLAIMED),
                     'kind_free_text': 'verification-condition generator for a subset of Python (AST of /repo re-read on every run) '
                                       'with sidecar contracts; obligations discharged by z3 5.1 (API) and cvc5 1.0.3 (CLI)'}],
        'checks': checks,
        'not_applicable': na,
        'notes': 'Exit 3 from a check means checker error (vacuity guard, solver disagreement, crash): nothing it printed is a verdict.',
    }
    json.dump(m, open(os.path.join(HERE, 'MANIFEST.json'), 'w'), indent=1)

main()
