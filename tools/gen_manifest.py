#!/usr/bin/env python3
"""regenerate MANIFEST.json from the table below (kept in one place so that it stays valid)"""
import json, os
HERE = os.path.dirname(os.path.dirname(os.path.abspath(__file__)))
BASE = "cd /repo && /venv/bin/python -m pytest -ra -q -p no:cacheprovider --timeout=900 --continue-on-collection-errors"

CLAIMED = {
 'C15': dict(cat='proof', design='6/C15',
   text="Contracts on _reset_marks, topological_order (generator, as a procedure over a ghost yield log) and check_cycles; "
        "loop invariants T0-T4 discharged for an uninterpreted job set and requirement relation (no bound on the graph). "
        "Postconditions: normal exhaustion => every member yielded exactly once, positions form a linear extension, and no "
        "non-empty self-supporting subset exists (acyclic); raise => the unmarked members are such a subset (cyclic); "
        "termination variant of the marking loop. A bounded concrete cross-check of the real functions (all digraphs <= 4 nodes) "
        "runs alongside and is not counted as proof.",
   note="Assumes: closed scheduler (precondition, as in the statement); python semantics encoding of DESIGN 3.3 (ints mathematical, "
        "identity equality, arbitrary set iteration order); finite-cardinality lemma instances K2-K4; attribute reads do not raise. "
        "Not yet under contract: Scheduler.check_cycles recursion and _set_sched_ids/list() numbering (covered by the bounded part only).",
   tech="contract-based deductive verification: AST->SMT verification conditions from /repo source, z3 + cvc5"),
 'C17': dict(cat='proof', design='6/C17',
   text="Contracts on _backlinks, _neighbours (specialised for the two attribute names), predecessors, successors, "
        "_neighbours_closure, predecessors_upstream, successors_downstream, entry_jobs, exit_jobs. Closures are specified as least "
        "sets closed under the neighbour relation (both inclusions, the 'least' direction for an arbitrary closed set); all loop "
        "invariants and the termination variant are discharged without bound on the graph.",
   note="Assumes: closed scheduler for the successor-based queries, start jobs are members (as in the statement), encoding of DESIGN 3.3, "
        "K-lemma instances. 'Least closed set = reachable through >= 1 links' is lemma L2 (paper/Lean, not SMT). iterate_jobs is so far "
        "covered by the bounded part only.",
   tech="contract-based deductive verification: AST->SMT verification conditions from /repo source, z3 + cvc5"),
}

def main():
    props = [json.loads(l) for l in open(os.path.join(HERE, 'properties.jsonl'))]
    checks, na = [], []
    for p in props:
        pid = p['id']
        if pid in CLAIMED:
            c = CLAIMED[pid]
            checks.append({
                'property_id': pid,
                'quick_cmd': './check %s --tier quick' % pid,
                'thorough_cmd': './check %s --tier thorough' % pid,
                'evidence_file': 'evidence/%s.json' % pid,
                'replay_cmd_template': './check --replay {path}',
                'engine': 'pyvc',
                'level_claimed': {'category': c['cat'], 'text': c['text'], 'design_ref': c['design']},
                'level_note': c['note'],
                'technique': c['tech'],
            })
        else:
            na.append({'property_id': pid, 'reason': 'check not built yet (framework under construction; see DESIGN.md section 11)'})
    m = {
        'version': 1,
        'setup_cmd': './setup.sh',
        'hooks': {'guard': 'ASYNCIOJOBS_VERIF',
                  'enable': 'no source hook is needed: contracts are sidecar files under /verif/contracts and the checks read /repo source directly',
                  'baseline_off_cmd': BASE, 'source_commits': [], 'add_only': True},
        'engines': [{'name': 'pyvc', 'path': 'pyvc/', 'serves_properties': sorted(CLAIMED),
                     'kind_free_text': 'verification-condition generator for a subset of Python (AST of /repo re-read on every run) '
                                       'with sidecar contracts; obligations discharged by z3 5.1 (API) and cvc5 1.0.3 (CLI)'}],
        'checks': checks,
        'not_applicable': na,
        'notes': 'Exit 3 from a check means checker error (vacuity guard, solver disagreement, crash): nothing it printed is a verdict.',
    }
    json.dump(m, open(os.path.join(HERE, 'MANIFEST.json'), 'w'), indent=1)

main()
