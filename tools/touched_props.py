#!/usr/bin/env python3
"""touched_props.py <patched tree> <patch.diff>: properties whose functions under contract are touched by the patch"""
import ast, os, re, subprocess, sys
tree, patch = sys.argv[1], sys.argv[2]
HERE = os.path.dirname(os.path.dirname(os.path.abspath(__file__)))
touched = {}
cur = None
for line in open(patch):
    m = re.match(r'\+\+\+ b/(.*)', line)
    if m:
        cur = m.group(1)
        continue
    m = re.match(r'@@ -\d+(?:,\d+)? \+(\d+)(?:,(\d+))? @@', line)
    if m and cur:
        a, n = int(m.group(1)), int(m.group(2) or 1)
        touched.setdefault(cur, []).append((a, a + n))
quals = set()
for f, ranges in touched.items():
    p = os.path.join(tree, f)
    if not p.endswith('.py') or not os.path.exists(p):
        continue
    t = ast.parse(open(p).read())

    def walk(node, prefix):
        for ch in ast.iter_child_nodes(node):
            if isinstance(ch, (ast.ClassDef, ast.FunctionDef, ast.AsyncFunctionDef)):
                q = prefix + [ch.name]
                if not isinstance(ch, ast.ClassDef):
                    for a, b in ranges:
                        if ch.lineno <= b and ch.end_lineno >= a:
                            quals.add('.'.join(q))
                            quals.add('.'.join(q[:1] + ['.'.join(q[1:]).replace('.', '.<locals>.')]))
                walk(ch, q)
    walk(t, [])
out = subprocess.run([os.path.join(HERE, 'check'), '--list'], capture_output=True, text=True).stdout
props = []
for line in out.split('\n'):
    parts = line.split()
    if parts and any(fn in quals for fn in parts[1:]):
        props.append(parts[0])
print(' '.join(props))
