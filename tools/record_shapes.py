#!/usr/bin/env python3
"""record, for every function under contract, the headers of its loops in source order (contracts/LOOP_SHAPES.json).
The contracts attach invariants to loops by ordinal; a function whose loops no longer match the recorded headers is a
shape mismatch (verdict UNDECIDED for that function), never a proof and never a checker error.
Run on the unchanged /repo whenever a contract with loops is added:  python3-vt tools/record_shapes.py"""
import json, os, sys
HERE = os.path.dirname(os.path.dirname(os.path.abspath(__file__)))
sys.path.insert(0, HERE)
from pyvc import driver                      # noqa: E402
from pyvc.extract import Repo, loop_headers  # noqa: E402

reg = driver.load_contracts()
repo = Repo('/repo')
out = {}
for qn, c in sorted(reg.by_name.items()):
    if getattr(c, 'kind', None) == 'env' or not c.file:
        continue
    info = repo.find(c.file, qn)
    if info is None:
        continue
    out[qn] = loop_headers(info.node)
json.dump(out, open(os.path.join(HERE, 'contracts', 'LOOP_SHAPES.json'), 'w'), indent=1, sort_keys=True)
print(len(out), 'functions,', sum(len(v) for v in out.values()), 'loops recorded')
