#!/usr/bin/env python3
"""development helper: discharge every obligation of every function under contract under the current PYTHONHASHSEED
and list those that are not discharged (fragile obligations: candidates for splitting or hints)"""
import os, sys, time
HERE = os.path.dirname(os.path.dirname(os.path.abspath(__file__)))
sys.path.insert(0, HERE)
from pyvc import driver, solve          # noqa: E402
from pyvc.extract import Repo           # noqa: E402
reg = driver.load_contracts()
names = [qn for qn, c in reg.by_name.items() if getattr(c, 'kind', None) != 'env' and c.file]
frs = driver.generate(names, Repo('/repo'))
obls = [o for fr in frs for o in fr.obligations]
t = time.time()
res = solve.discharge(obls, both=False)
bad = [r for r in res if r['verdict'] != 'unsat']
slow = sorted(res, key=lambda r: -(r['z3_s'] + r['cvc5_s']))[:8]
print('hashseed', os.environ.get('PYTHONHASHSEED'), len(res), 'obligations', len(bad), 'not discharged', '%.0fs' % (time.time() - t))
for r in bad:
    print('  NOT DISCHARGED', r['verdict'], r['name'])
for r in slow:
    print('  slow %.1fs %s %s' % (r['z3_s'] + r['cvc5_s'], r['backend'], r['name']))
