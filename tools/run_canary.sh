#!/bin/bash
# tools/run_canary.sh <patch> <props...>: run checks against a scratch worktree of /repo HEAD with the patch applied
patch="$(realpath "$1")"; shift
wt=$(mktemp -d /tmp/canary.XXXXXX)
git -C /repo worktree add -q --detach "$wt" HEAD || exit 2
trap 'git -C /repo worktree remove --force "$wt" 2>/dev/null; rm -rf "$wt"' EXIT
(cd "$wt" && git apply "$patch") || { echo "patch does not apply"; exit 2; }
cd /verif
for p in "$@"; do
  VERIF_REPO="$wt" ./check "$p" --tier quick > "$wt.log" 2>&1; rc=$?
  echo "$(basename "$patch") $p exit=$rc $(grep -c '^UNDECIDED' "$wt.log") undecided; $(tail -1 "$wt.log" | cut -c1-120)"
  rm -f "$wt.log"
done
