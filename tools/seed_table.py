#!/usr/bin/env python3
"""regenerate the table of DESIGN.md section 14 from seeded/*/meta.json (between the SEEDTABLE markers)"""
import json, os, glob, re
HERE = os.path.dirname(os.path.dirname(os.path.abspath(__file__)))
rows = []
for d in sorted(glob.glob(os.path.join(HERE, 'seeded', '*'))):
    mp = os.path.join(d, 'meta.json')
    if not os.path.exists(mp):
        continue
    m = json.load(open(mp))
    chk = m.get('check', {})
    out = chk.get('output', [])
    rc = chk.get('exit')
    proof = [l for l in out if l.startswith('VIOLATION') and 'bounded' not in l]
    und = [l for l in out if l.startswith('UNDECIDED')]
    vio = [l for l in out if l.startswith('VIOLATION')]
    dm = (m.get('confirmed') or {})
    if m.get('judged'):
        how = '%s: check exit %s' % (m['judged'], rc)
    elif dm.get('demo_exit_with_change') == 0:
        how = 'the change no longer breaks the property on the current /repo (demo passes): check exit %s' % rc
    elif rc == 1:
        how = 'caught (exit 1): ' + ('obligation ' + ', '.join(sorted({re.sub(r'.*replays/[A-Z0-9]+-', '', l.split('replay=')[1]).split('.json')[0][:60] for l in vio}))[:160] if vio else '')
        if und:
            how += '; %d obligations undecided on the changed code' % len(und)
    elif rc == 0:
        oth = chk.get('other_checks_exit') or {}
        hit = [k for k, v in oth.items() if str(v) == '1']
        how = '**missed** (exit 0)' + ('; caught by ./check %s' % ', '.join(hit) if hit else '')
    else:
        how = 'checker error (exit %s): %s' % (rc, (out or [''])[0][:120])
    conf = m.get('confirmed', {})
    rows.append('| %s | %s | %s | %s | demo %s→%s, suite: %s | %s |' % (
        os.path.basename(d), m.get('property'), (m.get('summary') or '')[:170].replace('|', '/').replace('\n', ' '),
        (m.get('needs') or '')[:150].replace('|', '/').replace('\n', ' '),
        conf.get('demo_exit_without_change'), conf.get('demo_exit_with_change'),
        (conf.get('test_suite_with_change') or '').split(',')[0], how.replace('|', '/')))
table = ['| seed | property | change | needs, to manifest | confirmed | `./check <property>` on the changed tree |',
         '|------|----------|--------|--------------------|-----------|-----------------------------------------|'] + rows
p = os.path.join(HERE, 'DESIGN.md')
s = open(p).read()
block = '<!-- SEEDTABLE-BEGIN -->\n' + '\n'.join(table) + '\n<!-- SEEDTABLE-END -->'
if '<!-- SEEDTABLE-BEGIN -->' in s:
    s = re.sub(r'<!-- SEEDTABLE-BEGIN -->.*?<!-- SEEDTABLE-END -->', lambda m_: block, s, flags=re.S)
else:
    s = s.replace('SEEDTABLE\n', block + '\n')
open(p, 'w').write(s)
print(len(rows), 'rows')
