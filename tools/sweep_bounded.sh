#!/bin/bash
# tools/sweep_bounded.sh <tier> <seed...>: bounded parts of the run-time checks on /repo, both interpreters;
# prints only failures (to be run after every change of an oracle or of a scenario generator)
tier="$1"; shift
for seed in "$@"; do
for n in $(seq -w 1 14); do p=C$n
 for py in /venv/bin/python python3-vt; do
  PYTHONPATH=/repo:/verif $py /verif/replay/bounded.py $p --tier $tier --seed $seed 2>/dev/null | python3 -c "
import json,sys
d=json.loads(sys.stdin.read().strip().split('\n')[-1])
if d['failures']: print('$p seed $seed $py', [(f['id'], f['what'][:160]) for f in d['failures'][:2]])"
 done; done; echo "seed $seed done"; done
