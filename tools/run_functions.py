#!/usr/bin/env python3
"""development helper: generate and discharge the obligations of the named functions (python3-vt tools/run_functions.py Q1 Q2 ...)"""
import os, sys, time
HERE = os.path.dirname(os.path.dirname(os.path.abspath(__file__)))
sys.path.insert(0, HERE)
from pyvc import driver, solve          # noqa: E402
from pyvc.extract import Repo           # noqa: E402
names = sys.argv[1:]
driver.load_contracts()
frs = driver.generate(names, Repo(os.environ.get('VERIF_REPO', '/repo')))
for fr in frs:
    if fr.undecided:
        print('UNDECIDED', fr.qualname, fr.undecided[:3000])
        continue
    t = time.time()
    res = solve.discharge(fr.obligations, both=False)
    cov = solve.check_covers(fr.covers)
    bad = [r for r in res if r['verdict'] != 'unsat']
    print(fr.qualname, len(res), 'obligations', len(bad), 'not discharged', 'covers unsat:',
          [c['name'] for c in cov if c['result'] == 'unsat'], '%.1fs' % (time.time() - t))
    for r in bad[:40]:
        print('  ', r['verdict'], r['name'], r.get('reason', ''))
