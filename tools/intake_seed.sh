#!/bin/bash
# tools/intake_seed.sh <prop> <seed-id> <srcdir>   -- confirm a seeded change and store it under seeded/<seed-id>/
# Confirms, in a scratch worktree of /repo HEAD (outside /repo and /verif, removed afterwards):
#   patch applies; demo passes without it and fails with it; the repository's test-suite passes with it;
# then runs ./check <prop> against the patched tree and records everything in meta.json.
set -u
prop="$1"; id="$2"; src="$3"
V=/verif
wt=$(mktemp -d /tmp/intake.XXXXXX)
git -C /repo worktree add -q --detach "$wt" HEAD || exit 2
cleanup() { git -C /repo worktree remove --force "$wt" 2>/dev/null; rm -rf "$wt"; }
trap cleanup EXIT
out="$V/seeded/$id"; mkdir -p "$out"
cp "$src/patch.diff" "$src/demo.py" "$out/"
cd "$wt"
PYTHONPATH="$wt" /venv/bin/python "$out/demo.py" >/dev/null 2>&1; demo_clean=$?
if ! git apply "$out/patch.diff" 2>"$out/apply.err"; then echo "PATCH DOES NOT APPLY"; cat "$out/apply.err"; exit 1; fi
rm -f "$out/apply.err"
PYTHONPATH="$wt" /venv/bin/python "$out/demo.py" >/dev/null 2>&1; demo_changed=$?
tests=$(PYTHONPATH="$wt" /venv/bin/python -m pytest -q -p no:cacheprovider --timeout=900 tests 2>&1 | tail -1)
cd "$V"
VERIF_REPO="$wt" ./check "$prop" --tier quick >"$wt.chk" 2>&1; rc=$?
chk=$(grep -E "^(VIOLATION|UNDECIDED|KNOWN|CHECKER|$prop:)" "$wt.chk" | sed "s#$wt#<tree>#g" | head -12); rm -f "$wt.chk"
others=""
if [ "$rc" = "0" ]; then
  # the named property's check did not alarm: which other claimed checks cover the functions the patch touches?
  n=0
  for q in $(python3 "$V/tools/touched_props.py" "$wt" "$out/patch.diff"); do
    [ "$q" = "$prop" ] && continue
    n=$((n+1)); [ $n -gt 6 ] && break
    VERIF_REPO="$wt" ./check "$q" --tier quick >"$wt.chk" 2>&1; r2=$?
    others="$others$q:$r2 "
    [ "$r2" = "1" ] && break
  done
  rm -f "$wt.chk"
fi
python3 - "$src/meta.json" "$out/meta.json" "$prop" "$demo_clean" "$demo_changed" "$tests" "$rc" "$chk" "$others" <<'PY'
import json, sys
src, dst, prop, dc, dch, tests, rc, chk, others = sys.argv[1:10]
try:
    m = json.load(open(src))
except Exception:
    m = {}
m.update({'property': prop, 'confirmed': {'demo_exit_without_change': int(dc), 'demo_exit_with_change': int(dch),
          'test_suite_with_change': tests, 'base': 'HEAD of /repo at intake'},
          'check': {'cmd': './check %s --tier quick (VERIF_REPO=<patched tree>)' % prop, 'exit': int(rc), 'output': chk.split('\n'),
                    'other_checks_exit': dict(x.split(':') for x in others.split())}})
json.dump(m, open(dst, 'w'), indent=1)
print(prop, 'demo', dc, '->', dch, '|', tests, '| check rc', rc, others)
PY
