"""
Contracts of the construction API (property C19): AbstractJob.requires / _add_one_requirement,
Sequence.*, PureScheduler.update/add/remove.  Spec functions `leaves` / `flat` come from the statement.
"""
import z3
from pyvc import logic as L
from pyvc.contracts_api import contract
from pyvc.logic import Ref, NONE, TRUE, FALSE, truthy, card, isa, fresh, V
from .spec import *

FJ = 'job.py'
_LEAVES = {}


def leaves_fn(c, st):
    """leaves_st(x): the jobs an argument of requires() stands for (statement of C19):
       None -> {} ; a job -> {job} ; a Sequence -> {its last job} or {} ; a tuple/list/set -> union over its items.
    One uninterpreted function per heap, with its unfolding axioms."""
    key = tuple(st.H(f).get_id() for f in ('$elems', '$llen', '$lat', 'seqjobs'))
    if key not in _LEAVES:
        lv = z3.Function(L.fresh_name('leaves'), Ref, L.SetV)
        x, y, e = q(3)
        i = fresh('i', L.I)
        sj = st.f('seqjobs', x)
        axs = [
            ForAll([y], Not(Select(lv(NONE), y)), patterns=[Select(lv(NONE), y)]),
            ForAll([x, y], Implies(isa['AbstractJob'](x), Select(lv(x), y) == (y == x)), patterns=[Select(lv(x), y)]),
            ForAll([x, y], Implies(isa['Sequence'](x), Select(lv(x), y) ==
                                   And(st.llen(sj) > 0, y == st.lat(sj, st.llen(sj) - 1))),
                   patterns=[Select(lv(x), y)]),
            ForAll([x, y], Implies(Or(isa['list'](x), isa['tuple'](x)), Select(lv(x), y) ==
                                   Exists([i], And(0 <= i, i < st.llen(x), Select(lv(st.lat(x, i)), y)))),
                   patterns=[Select(lv(x), y)]),
            ForAll([x, i, y], Implies(And(Or(isa['list'](x), isa['tuple'](x)), 0 <= i, i < st.llen(x),
                                          Select(lv(st.lat(x, i)), y)), Select(lv(x), y)),
                   patterns=[z3.MultiPattern(Select(lv(st.lat(x, i)), y), isa['tuple'](x)),
                             z3.MultiPattern(Select(lv(st.lat(x, i)), y), isa['list'](x))]),
            ForAll([x, y], Implies(isa['set'](x), Select(lv(x), y) ==
                                   Exists([e], And(st.mem(x, e), Select(lv(e), y)))),
                   patterns=[Select(lv(x), y)]),
        ]
        _LEAVES[key] = (lv, axs)
    lv, axs = _LEAVES[key]
    c.fact(axs)
    return lv


# ---------------------------------------------------------------- AbstractJob._add_one_requirement
c = contract('AbstractJob._add_one_requirement', FJ).param('self').param('job').returns('none')
c.for_props('C19')
c.requires('self-is-a-job', lambda c: isa['AbstractJob'](c.a.self))
c.requires('job-is-a-live-job', lambda c: And(isa['AbstractJob'](c.a.job), c.pre.alive(c.a.job)))
c.modifies('$elems')
c.ensures('adds-the-job-unless-it-is-self', lambda c: (lambda x: ForAll([x], c.cur.mem(c.cur.f('required', c.a.self), x) ==
          Or(c.pre.mem(c.pre.f('required', c.a.self), x), And(x == c.a.job, c.a.job != c.a.self)),
          patterns=[c.cur.mem(c.cur.f('required', c.a.self), x)]))(q()))
c.ensures('frame[elems]', lambda c: unchanged_elems(c.pre, c.cur, lambda s: s == c.pre.f('required', c.a.self)))


# ---------------------------------------------------------------- AbstractJob.requires
ARG = z3.Function('ARG', Ref, L.B)       # x belongs to the (finitely nested) argument structure of a requires() call


def other_iterable(x):
    return And(x != NONE, Not(isa['AbstractJob'](x)), Not(isa['Sequence'](x)), Not(isa['list'](x)),
               Not(isa['tuple'](x)), Not(isa['set'](x)))


def arg_closure(st):
    """input validity of an argument structure: closed under taking items; its set containers are plain local
    sets (not the requirement container of a job), everything in it is alive"""
    x, e = q(2)
    i = fresh('i', L.I)
    sj = st.f('seqjobs', x)
    return And(
        ForAll([x, i], Implies(And(ARG(x), Or(isa['list'](x), isa['tuple'](x)), 0 <= i, i < st.llen(x)),
                               ARG(st.lat(x, i))), patterns=[z3.MultiPattern(ARG(x), st.lat(x, i))]),
        ForAll([x, e], Implies(And(ARG(x), isa['set'](x), st.mem(x, e)), ARG(e)),
               patterns=[z3.MultiPattern(ARG(x), st.mem(x, e))]),
        ForAll([x], Implies(And(ARG(x), isa['Sequence'](x), st.llen(sj) > 0),
                            And(ARG(st.lat(sj, st.llen(sj) - 1)), isa['AbstractJob'](st.lat(sj, st.llen(sj) - 1)))),
               patterns=[z3.MultiPattern(ARG(x), isa['Sequence'](x))]),
        # arbitrary other iterables are outside the statement (lists, tuples and sets are what it speaks of)
        ForAll([x], Implies(ARG(x), Not(other_iterable(x))), patterns=[ARG(x)]),
        ForAll([x], Implies(ARG(x), st.alive(x)), patterns=[ARG(x)]),
        ForAll([x], Implies(And(ARG(x), isa['set'](x)), st.f('$setrole', x) == 0), patterns=[ARG(x)]),
        ForAll([x], Implies(And(ARG(x), isa['Sequence'](x)), And(st.alive(sj), Not(ARG(sj)))),
               patterns=[z3.MultiPattern(ARG(x), isa['Sequence'](x))]))


LEAVES = z3.Function('LEAVES', Ref, L.SetV)    # rigid: the argument structure is immutable during the call tree
_LEAVES_AX = {}


def leaves_fn(c, st):
    """LEAVES(x): the jobs an argument of requires() stands for (statement of C19):
       None -> {} ; a job -> {job} ; a Sequence -> {its last job} or {} ; a tuple/list/set -> union over its items.
    One rigid function; its unfolding axioms are stated on the given state and only for objects of the argument
    structure (ARG), whose containers no state of the call tree changes (frame obligations of requires())."""
    key = tuple(st.H(f).get_id() for f in ('$elems', '$llen', '$lat', 'seqjobs'))
    if key not in _LEAVES_AX:
        lv = LEAVES
        x, y, e = q(3)
        i = fresh('i', L.I)
        sj = st.f('seqjobs', x)
        seqlike = lambda x_: Or(isa['list'](x_), isa['tuple'](x_))
        _LEAVES_AX[key] = [
            ForAll([y], Not(Select(lv(NONE), y)), patterns=[Select(lv(NONE), y)]),
            ForAll([x, y], Implies(isa['AbstractJob'](x), Select(lv(x), y) == (y == x)), patterns=[Select(lv(x), y)]),
            ForAll([x, y], Implies(And(ARG(x), isa['Sequence'](x)), Select(lv(x), y) ==
                                   And(st.llen(sj) > 0, y == st.lat(sj, st.llen(sj) - 1))),
                   patterns=[Select(lv(x), y)]),
            ForAll([x, y], Implies(And(ARG(x), seqlike(x)), Select(lv(x), y) ==
                                   Exists([i], And(0 <= i, i < st.llen(x), Select(lv(st.lat(x, i)), y)))),
                   patterns=[Select(lv(x), y)]),
            ForAll([x, i, y], Implies(And(ARG(x), seqlike(x), 0 <= i, i < st.llen(x), Select(lv(st.lat(x, i)), y)),
                                      Select(lv(x), y)),
                   patterns=[z3.MultiPattern(Select(lv(st.lat(x, i)), y), ARG(x))]),
            ForAll([x, y], Implies(And(ARG(x), isa['set'](x)), Select(lv(x), y) ==
                                   Exists([e], And(st.mem(x, e), Select(lv(e), y)))),
                   patterns=[Select(lv(x), y)]),
            ForAll([x, e, y], Implies(And(ARG(x), isa['set'](x), st.mem(x, e), Select(lv(e), y)), Select(lv(x), y)),
                   patterns=[z3.MultiPattern(Select(lv(e), y), st.mem(x, e))]),
        ]
    c.fact(_LEAVES_AX[key])
    return LEAVES


def prefix_leaves(c, lv, lst, upto):
    """x is a leaf of one of the first `upto` items of the list object lst (entry state)"""
    i = fresh('i', L.I)
    return lambda x: Exists([i], And(0 <= i, i < upto, Select(lv(c.pre.lat(lst, i)), x)))


c = contract('AbstractJob.requires', FJ).param('self').param('requirements', 'varargs') \
    .param('remove', 'kw:bool', False).returns('ref')
c.for_props('C19', 'C18')
c.fieldmap = {'jobs': 'seqjobs'}
c.requires('self-is-a-job', lambda c: isa['AbstractJob'](c.a.self))
c.requires('argument-structure', lambda c: And(arg_closure(c.pre), (lambda i: ForAll([i], Implies(
    And(0 <= i, i < c.pre.llen(c.a.requirements)), ARG(c.pre.lat(c.a.requirements, i))),
    patterns=[c.pre.lat(c.a.requirements, i)]))(fresh('i', L.I)), Not(ARG(c.a.requirements))))
c.modifies('$elems', '$alive', '$llen', '$lat', '$setrole')


def _own(c, st):
    return st.f('required', c.a.self)


def _req_add(c):
    lv = leaves_fn(c, c.pre)
    LV = prefix_leaves(c, lv, c.a.requirements, c.pre.llen(c.a.requirements))
    x = q()
    return Implies(Not(c.a.remove), ForAll([x], c.cur.mem(_own(c, c.cur), x) ==
                                           Or(c.pre.mem(_own(c, c.pre), x), And(LV(x), x != c.a.self)),
                                           patterns=[c.cur.mem(_own(c, c.cur), x)]))


def _req_remove(c):
    lv = leaves_fn(c, c.pre)
    LV = prefix_leaves(c, lv, c.a.requirements, c.pre.llen(c.a.requirements))
    x = q()
    return Implies(c.a.remove, And(
        ForAll([x], Implies(LV(x), c.pre.mem(_own(c, c.pre), x)), patterns=[c.pre.mem(_own(c, c.pre), x)]),
        ForAll([x], c.cur.mem(_own(c, c.cur), x) == And(c.pre.mem(_own(c, c.pre), x), Not(LV(x))),
               patterns=[c.cur.mem(_own(c, c.cur), x)])))


def _req_frame(c):
    s = q()
    return ForAll([s], Implies(And(c.pre.alive(s), s != _own(c, c.pre)), c.cur.elems(s) == c.pre.elems(s)),
                  patterns=[c.cur.elems(s)])


def _req_lists(c):
    s = q()
    return And(ForAll([s], Implies(c.pre.alive(s), And(c.cur.llen(s) == c.pre.llen(s),
                                                       Select(c.cur.H('$lat'), s) == Select(c.pre.H('$lat'), s))),
                      patterns=[c.cur.llen(s)]), roles_frame(c.pre, c.cur))


c.ensures('adds-exactly-the-leaves-except-self', _req_add, props=['C19', 'C18'])
c.ensures('removes-exactly-the-leaves', _req_remove, props=['C19'])
c.ensures('returns-self', lambda c: c.result == c.a.self, props=['C19'])
c.ensures('frame[elems]', _req_frame)
c.ensures('frame[lists-and-roles]', _req_lists)
c.raises('KeyError', 'only-when-removing', lambda c: c.a.remove, props=['C19'])
c.raises('KeyError', 'frame[elems]', _req_frame)
c.raises('KeyError', 'frame[lists-and-roles]', _req_lists)


def _rq_outer(c):
    """for requirement in requirements"""
    lv = leaves_fn(c, c.pre)
    LV = prefix_leaves(c, lv, c.a.requirements, c.index)
    x = q()
    own0, own1 = _own(c, c.pre), _own(c, c.cur)
    return [
        ('add-mode', Implies(Not(c.a.remove), ForAll([x], c.cur.mem(own1, x) ==
                                                     Or(c.pre.mem(own0, x), And(LV(x), x != c.a.self)),
                                                     patterns=[c.cur.mem(own1, x)]))),
        ('remove-mode', Implies(c.a.remove, And(
            ForAll([x], Implies(LV(x), c.pre.mem(own0, x)), patterns=[c.pre.mem(own0, x)]),
            ForAll([x], c.cur.mem(own1, x) == And(c.pre.mem(own0, x), Not(LV(x))), patterns=[c.cur.mem(own1, x)])))),
        ('frame[elems]', _req_frame(c)),
        ('frame[lists-and-roles]', _req_lists(c)),
    ]


def _rq_inner(c):
    """for req in requirement  (requirement a tuple, a list or a set)"""
    lv = leaves_fn(c, c.pre)
    o = c.outer[-1]
    LV = prefix_leaves(c, lv, c.a.requirements, o['index'])
    x = q()
    i = fresh('i', L.I)
    own0, own1 = _own(c, c.pre), _own(c, c.cur)
    if c.index is not None:
        part = lambda x_: Exists([i], And(0 <= i, i < c.index, Select(lv(c.pre.lat(c.iterlist, i)), x_)))
    else:
        e = q()
        part = lambda x_: Exists([e], And(Select(c.visited, e), Select(lv(e), x_)))
    seen = lambda x_: Or(LV(x_), part(x_))
    return [
        ('add-mode', Implies(Not(c.a.remove), ForAll([x], c.cur.mem(own1, x) ==
                                                     Or(c.pre.mem(own0, x), And(seen(x), x != c.a.self)),
                                                     patterns=[c.cur.mem(own1, x)]))),
        ('remove-mode', Implies(c.a.remove, And(
            ForAll([x], Implies(seen(x), c.pre.mem(own0, x)), patterns=[c.pre.mem(own0, x)]),
            ForAll([x], c.cur.mem(own1, x) == And(c.pre.mem(own0, x), Not(seen(x))), patterns=[c.cur.mem(own1, x)])))),
        ('frame[elems]', _req_frame(c)),
        ('frame[lists-and-roles]', _req_lists(c)),
    ]


def _cl(fn, labels, key):
    return [(lab, (lambda lab: lambda c: dict(c.memo(key, lambda: fn(c)))[lab])(lab)) for lab in labels]


_RQ = ['add-mode', 'remove-mode', 'frame[elems]', 'frame[lists-and-roles]']
c.loop(0, inv=_cl(_rq_outer, _RQ, 'rq0'))
c.loop(1, inv=_cl(_rq_inner, _RQ, 'rq1'))
