"""
Contracts of the construction API (property C19): AbstractJob.requires / _add_one_requirement,
Sequence.*, PureScheduler.update/add/remove.  Spec functions `leaves` / `flat` come from the statement.
"""
import z3
from pyvc import logic as L
from pyvc.contracts_api import contract
from pyvc.logic import Ref, NONE, TRUE, FALSE, truthy, card, isa, fresh, V
from .spec import *

FJ = 'job.py'
_LEAVES = {}


def leaves_fn(c, st):
    """leaves_st(x): the jobs an argument of requires() stands for (statement of C19):
       None -> {} ; a job -> {job} ; a Sequence -> {its last job} or {} ; a tuple/list/set -> union over its items.
    One uninterpreted function per heap, with its unfolding axioms."""
    key = tuple(st.H(f).get_id() for f in ('$elems', '$llen', '$lat', 'seqjobs'))
    if key not in _LEAVES:
        lv = z3.Function(L.fresh_name('leaves'), Ref, L.SetV)
        x, y, e = q(3)
        i = fresh('i', L.I)
        sj = st.f('seqjobs', x)
        axs = [
            ForAll([y], Not(Select(lv(NONE), y)), patterns=[Select(lv(NONE), y)]),
            ForAll([x, y], Implies(isa['AbstractJob'](x), Select(lv(x), y) == (y == x)), patterns=[Select(lv(x), y)]),
            ForAll([x, y], Implies(isa['Sequence'](x), Select(lv(x), y) ==
                                   And(st.llen(sj) > 0, y == st.lat(sj, st.llen(sj) - 1))),
                   patterns=[Select(lv(x), y)]),
            ForAll([x, y], Implies(Or(isa['list'](x), isa['tuple'](x)), Select(lv(x), y) ==
                                   Exists([i], And(0 <= i, i < st.llen(x), Select(lv(st.lat(x, i)), y)))),
                   patterns=[Select(lv(x), y)]),
            ForAll([x, i, y], Implies(And(Or(isa['list'](x), isa['tuple'](x)), 0 <= i, i < st.llen(x),
                                          Select(lv(st.lat(x, i)), y)), Select(lv(x), y)),
                   patterns=[z3.MultiPattern(Select(lv(st.lat(x, i)), y), isa['tuple'](x)),
                             z3.MultiPattern(Select(lv(st.lat(x, i)), y), isa['list'](x))]),
            ForAll([x, y], Implies(isa['set'](x), Select(lv(x), y) ==
                                   Exists([e], And(st.mem(x, e), Select(lv(e), y)))),
                   patterns=[Select(lv(x), y)]),
        ]
        _LEAVES[key] = (lv, axs)
    lv, axs = _LEAVES[key]
    c.fact(axs)
    return lv


# ---------------------------------------------------------------- AbstractJob._add_one_requirement
c = contract('AbstractJob._add_one_requirement', FJ).param('self').param('job').returns('none')
c.for_props('C19')
c.requires('self-is-a-job', lambda c: isa['AbstractJob'](c.a.self))
c.modifies('$elems')
c.ensures('adds-the-job-unless-it-is-self', lambda c: (lambda x: ForAll([x], c.cur.mem(c.cur.f('required', c.a.self), x) ==
          Or(c.pre.mem(c.pre.f('required', c.a.self), x), And(x == c.a.job, c.a.job != c.a.self)),
          patterns=[c.cur.mem(c.cur.f('required', c.a.self), x)]))(q()))
c.ensures('frame[elems]', lambda c: unchanged_elems(c.pre, c.cur, lambda s: s == c.pre.f('required', c.a.self)))


# ---------------------------------------------------------------- AbstractJob.requires
c = contract('AbstractJob.requires', FJ).param('self').param('requirements', 'varargs') \
    .param('remove', 'kw:bool', False).returns('ref')
c.for_props('C19', 'C18')
c.requires('self-is-a-job', lambda c: isa['AbstractJob'](c.a.self))
c.modifies('$elems', '$alive', '$llen', '$lat')


def _req_add(c):
    lv = leaves_fn(c, c.pre)
    LV = lv(c.a.requirements)
    x = q()
    r0, r1 = c.pre.f('required', c.a.self), c.cur.f('required', c.a.self)
    return Implies(Not(c.a.remove), ForAll([x], c.cur.mem(r1, x) ==
                                           Or(c.pre.mem(r0, x), And(Select(LV, x), x != c.a.self)),
                                           patterns=[c.cur.mem(r1, x)]))


def _req_remove(c):
    lv = leaves_fn(c, c.pre)
    LV = lv(c.a.requirements)
    x = q()
    r0, r1 = c.pre.f('required', c.a.self), c.cur.f('required', c.a.self)
    return Implies(c.a.remove, And(
        ForAll([x], Implies(Select(LV, x), c.pre.mem(r0, x)), patterns=[Select(LV, x)]),
        ForAll([x], c.cur.mem(r1, x) == And(c.pre.mem(r0, x), Not(Select(LV, x))), patterns=[c.cur.mem(r1, x)])))


c.ensures('adds-exactly-the-leaves-except-self', _req_add, props=['C19', 'C18'])
c.ensures('removes-exactly-the-leaves', _req_remove, props=['C19'])
c.ensures('returns-self', lambda c: c.result == c.a.self, props=['C19'])
c.ensures('frame[elems]', lambda c: (lambda s: ForAll([s], Implies(
    And(c.pre.alive(s), s != c.pre.f('required', c.a.self)), c.cur.elems(s) == c.pre.elems(s)),
    patterns=[c.cur.elems(s)]))(q()))
c.raises('KeyError', 'only-with-remove-and-an-absent-leaf', lambda c: And(
    c.a.remove, (lambda x: Exists([x], And(Select(leaves_fn(c, c.pre)(c.a.requirements), x))))(q())), props=['C19'])
