"""
Contracts of the construction API (property C19): AbstractJob.requires / _add_one_requirement,
Sequence.*, PureScheduler.update/add/remove.  Spec functions `leaves` / `flat` come from the statement.
"""
import z3
from pyvc import logic as L
from pyvc.contracts_api import contract
from pyvc.logic import Ref, NONE, TRUE, FALSE, truthy, card, isa, fresh, V
from .spec import *

FJ = 'job.py'
_LEAVES = {}


def leaves_fn(c, st):
    """leaves_st(x): the jobs an argument of requires() stands for (statement of C19):
       None -> {} ; a job -> {job} ; a Sequence -> {its last job} or {} ; a tuple/list/set -> union over its items.
    One uninterpreted function per heap, with its unfolding axioms."""
    key = tuple(st.H(f).get_id() for f in ('$elems', '$llen', '$lat', 'seqjobs'))
    if key not in _LEAVES:
        lv = z3.Function(L.fresh_name('leaves'), Ref, L.SetV)
        x, y, e = q(3)
        i = fresh('i', L.I)
        sj = st.f('seqjobs', x)
        axs = [
            ForAll([y], Not(Select(lv(NONE), y)), patterns=[Select(lv(NONE), y)]),
            ForAll([x, y], Implies(isa['AbstractJob'](x), Select(lv(x), y) == (y == x)), patterns=[Select(lv(x), y)]),
            ForAll([x, y], Implies(isa['Sequence'](x), Select(lv(x), y) ==
                                   And(st.llen(sj) > 0, y == st.lat(sj, st.llen(sj) - 1))),
                   patterns=[Select(lv(x), y)]),
            ForAll([x, y], Implies(Or(isa['list'](x), isa['tuple'](x)), Select(lv(x), y) ==
                                   Exists([i], And(0 <= i, i < st.llen(x), Select(lv(st.lat(x, i)), y)))),
                   patterns=[Select(lv(x), y)]),
            ForAll([x, i, y], Implies(And(Or(isa['list'](x), isa['tuple'](x)), 0 <= i, i < st.llen(x),
                                          Select(lv(st.lat(x, i)), y)), Select(lv(x), y)),
                   patterns=[z3.MultiPattern(Select(lv(st.lat(x, i)), y), isa['tuple'](x)),
                             z3.MultiPattern(Select(lv(st.lat(x, i)), y), isa['list'](x))]),
            ForAll([x, y], Implies(isa['set'](x), Select(lv(x), y) ==
                                   Exists([e], And(st.mem(x, e), Select(lv(e), y)))),
                   patterns=[Select(lv(x), y)]),
        ]
        _LEAVES[key] = (lv, axs)
    lv, axs = _LEAVES[key]
    c.fact(axs)
    return lv


# ---------------------------------------------------------------- AbstractJob._add_one_requirement
c = contract('AbstractJob._add_one_requirement', FJ).param('self').param('job').returns('none')
c.for_props('C19')
c.requires('self-is-a-job', lambda c: isa['AbstractJob'](c.a.self))
c.requires('job-is-a-live-job', lambda c: And(isa['AbstractJob'](c.a.job), c.pre.alive(c.a.job)))
c.modifies('$elems')
c.ensures('adds-the-job-unless-it-is-self', lambda c: (lambda x: ForAll([x], c.cur.mem(c.cur.f('required', c.a.self), x) ==
          Or(c.pre.mem(c.pre.f('required', c.a.self), x), And(x == c.a.job, c.a.job != c.a.self)),
          patterns=[c.cur.mem(c.cur.f('required', c.a.self), x)]))(q()))
c.ensures('frame[elems]', lambda c: unchanged_elems(c.pre, c.cur, lambda s: s == c.pre.f('required', c.a.self)))


# ---------------------------------------------------------------- AbstractJob.requires
def new_ARG():
    return z3.Function(L.fresh_name('ARG'), Ref, L.B)


NO_ARG = lambda x: z3.BoolVal(False)      # default ghost argument: the items are plain jobs or None


def other_iterable(x):
    return And(x != NONE, Not(isa['AbstractJob'](x)), Not(isa['Sequence'](x)), Not(isa['list'](x)),
               Not(isa['tuple'](x)), Not(isa['set'](x)))


def argok(st, x, ARG):
    """an admissible item of an argument structure: None, a live job, or a container / sequence of ARG"""
    return Or(x == NONE, And(isa['AbstractJob'](x), st.alive(x)), ARG(x))


def arg_closure(st, ARG):
    """input validity of argument structures (ARG = the containers and sequences inside them): closed under
    taking items; set containers are plain local sets (not the requirement container of a job); everything is
    alive; only lists, tuples, sets and Sequences (what the statement speaks of)"""
    x, e = q(2)
    i = fresh('i', L.I)
    sj = st.f('seqjobs', x)
    return And(
        ForAll([x, i], Implies(And(ARG(x), Or(isa['list'](x), isa['tuple'](x)), 0 <= i, i < st.llen(x)),
                               argok(st, st.lat(x, i), ARG)), patterns=[z3.MultiPattern(ARG(x), st.lat(x, i))]),
        ForAll([x, e], Implies(And(ARG(x), isa['set'](x), st.mem(x, e)), argok(st, e, ARG)),
               patterns=[z3.MultiPattern(ARG(x), st.mem(x, e))]),
        ForAll([x], Implies(And(ARG(x), isa['Sequence'](x), st.llen(sj) > 0),
                            And(isa['AbstractJob'](st.lat(sj, st.llen(sj) - 1)), st.alive(st.lat(sj, st.llen(sj) - 1)))),
               patterns=[z3.MultiPattern(ARG(x), isa['Sequence'](x))]),
        ForAll([x], Implies(ARG(x), And(st.alive(x), Not(isa['AbstractJob'](x)), x != NONE,
                                        Or(isa['list'](x), isa['tuple'](x), isa['set'](x), isa['Sequence'](x)))),
               patterns=[ARG(x)]),
        ForAll([x], Implies(And(ARG(x), isa['set'](x)), st.f('$setrole', x) == 0), patterns=[ARG(x)]),
        ForAll([x], Implies(And(ARG(x), isa['Sequence'](x)), And(st.alive(sj), Not(ARG(sj)))),
               patterns=[z3.MultiPattern(ARG(x), isa['Sequence'](x))]))


LEAVES = z3.Function('LEAVES', Ref, L.SetV)    # rigid: the argument structure is immutable during the call tree
_LEAVES_AX = {}


def leaves_fn(c, st):
    """LEAVES(x): the jobs an argument of requires() stands for (statement of C19):
       None -> {} ; a job -> {job} ; a Sequence -> {its last job} or {} ; a tuple/list/set -> union over its items.
    One rigid function; its unfolding axioms are stated on the given state and only for objects of the argument
    structure (ARG), whose containers no state of the call tree changes (frame obligations of requires())."""
    ARG = c.ghost['ARG']
    key = tuple(st.H(f).get_id() for f in ('$elems', '$llen', '$lat', 'seqjobs')) + (id(ARG),)
    if key not in _LEAVES_AX:
        lv = LEAVES
        x, y, e = q(3)
        i = fresh('i', L.I)
        sj = st.f('seqjobs', x)
        seqlike = lambda x_: Or(isa['list'](x_), isa['tuple'](x_))
        _LEAVES_AX[key] = [
            ForAll([y], Not(Select(lv(NONE), y)), patterns=[Select(lv(NONE), y)]),
            ForAll([x, y], Implies(isa['AbstractJob'](x), Select(lv(x), y) == (y == x)), patterns=[Select(lv(x), y)]),
            ForAll([x, y], Implies(And(ARG(x), isa['Sequence'](x)), Select(lv(x), y) ==
                                   And(st.llen(sj) > 0, y == st.lat(sj, st.llen(sj) - 1))),
                   patterns=[Select(lv(x), y)]),
            ForAll([x, y], Implies(And(ARG(x), seqlike(x)), Select(lv(x), y) ==
                                   Exists([i], And(0 <= i, i < st.llen(x), Select(lv(st.lat(x, i)), y)))),
                   patterns=[Select(lv(x), y)]),
            ForAll([x, i, y], Implies(And(ARG(x), seqlike(x), 0 <= i, i < st.llen(x), Select(lv(st.lat(x, i)), y)),
                                      Select(lv(x), y)),
                   patterns=[z3.MultiPattern(Select(lv(st.lat(x, i)), y), ARG(x))]),
            ForAll([x, y], Implies(And(ARG(x), isa['set'](x)), Select(lv(x), y) ==
                                   Exists([e], And(st.mem(x, e), Select(lv(e), y)))),
                   patterns=[Select(lv(x), y)]),
            ForAll([x, e, y], Implies(And(ARG(x), isa['set'](x), st.mem(x, e), Select(lv(e), y)), Select(lv(x), y)),
                   patterns=[z3.MultiPattern(Select(lv(e), y), st.mem(x, e))]),
        ]
    c.fact(_LEAVES_AX[key])
    return LEAVES


def prefix_leaves(c, lv, lst, upto):
    """x is a leaf of one of the first `upto` items of the list object lst (entry state)"""
    i = fresh('i', L.I)
    return lambda x: Exists([i], And(0 <= i, i < upto, Select(lv(c.pre.lat(lst, i)), x)))


c = contract('AbstractJob.requires', FJ).param('self').param('requirements', 'varargs') \
    .param('remove', 'kw:bool', False).returns('ref')
c.for_props('C19', 'C18')
c.fieldmap = {'jobs': 'seqjobs'}
c.requires('self-is-a-job', lambda c: isa['AbstractJob'](c.a.self))
c.ghost_params = {'ARG': (new_ARG, NO_ARG)}
c.ghost_pass = {'AbstractJob.requires': lambda cc: {'ARG': cc.ghost['ARG']}}      # recursive calls: same structure
c.requires('argument-structure', lambda c: And(arg_closure(c.pre, c.ghost['ARG']), (lambda i: ForAll([i], Implies(
    And(0 <= i, i < c.pre.llen(c.a.requirements)), argok(c.pre, c.pre.lat(c.a.requirements, i), c.ghost['ARG'])),
    patterns=[c.pre.lat(c.a.requirements, i)]))(fresh('i', L.I)), Not(c.ghost['ARG'](c.a.requirements))))
c.modifies('$elems', '$alive', '$llen', '$lat', '$setrole')


def _own(c, st):
    return st.f('required', c.a.self)


def _req_add(c):
    lv = leaves_fn(c, c.pre)
    LV = prefix_leaves(c, lv, c.a.requirements, c.pre.llen(c.a.requirements))
    x = q()
    return Implies(Not(c.a.remove), ForAll([x], c.cur.mem(_own(c, c.cur), x) ==
                                           Or(c.pre.mem(_own(c, c.pre), x), And(LV(x), x != c.a.self)),
                                           patterns=[c.cur.mem(_own(c, c.cur), x)]))


def _req_remove(c):
    lv = leaves_fn(c, c.pre)
    LV = prefix_leaves(c, lv, c.a.requirements, c.pre.llen(c.a.requirements))
    x = q()
    return Implies(c.a.remove, And(
        ForAll([x], Implies(LV(x), c.pre.mem(_own(c, c.pre), x)), patterns=[c.pre.mem(_own(c, c.pre), x)]),
        ForAll([x], c.cur.mem(_own(c, c.cur), x) == And(c.pre.mem(_own(c, c.pre), x), Not(LV(x))),
               patterns=[c.cur.mem(_own(c, c.cur), x)])))


def _req_frame(c):
    s = q()
    return ForAll([s], Implies(And(c.pre.alive(s), s != _own(c, c.pre)), c.cur.elems(s) == c.pre.elems(s)),
                  patterns=[c.cur.elems(s)])


def _req_lists(c):
    s = q()
    return And(ForAll([s], Implies(c.pre.alive(s), And(c.cur.llen(s) == c.pre.llen(s),
                                                       Select(c.cur.H('$lat'), s) == Select(c.pre.H('$lat'), s))),
                      patterns=[c.cur.llen(s), Select(c.cur.H('$lat'), s)]), roles_frame(c.pre, c.cur))


c.ensures('adds-exactly-the-leaves-except-self', _req_add, props=['C19', 'C18'])
c.ensures('removes-exactly-the-leaves', _req_remove, props=['C19'])
c.ensures('returns-self', lambda c: c.result == c.a.self, props=['C19'])
c.ensures('frame[elems]', _req_frame)
c.ensures('frame[lists-and-roles]', _req_lists)
c.raises('KeyError', 'only-when-removing', lambda c: c.a.remove, props=['C19'])
c.raises('KeyError', 'frame[elems]', _req_frame)
c.raises('KeyError', 'frame[lists-and-roles]', _req_lists)


def _rq_outer(c):
    """for requirement in requirements"""
    lv = leaves_fn(c, c.pre)
    LV = prefix_leaves(c, lv, c.a.requirements, c.index)
    x = q()
    own0, own1 = _own(c, c.pre), _own(c, c.cur)
    return [
        ('add-mode', Implies(Not(c.a.remove), ForAll([x], c.cur.mem(own1, x) ==
                                                     Or(c.pre.mem(own0, x), And(LV(x), x != c.a.self)),
                                                     patterns=[c.cur.mem(own1, x)]))),
        ('remove-mode', Implies(c.a.remove,
            ForAll([x], Implies(LV(x), c.pre.mem(own0, x)), patterns=[c.pre.mem(own0, x)]))),
        ('remove-mode-result', Implies(c.a.remove,
            ForAll([x], c.cur.mem(own1, x) == And(c.pre.mem(own0, x), Not(LV(x))), patterns=[c.cur.mem(own1, x)]))),
        ('frame[elems]', _req_frame(c)),
        ('frame[lists-and-roles]', _req_lists(c)),
    ]


def _rq_inner(c):
    """for req in requirement  (requirement a tuple, a list or a set)"""
    lv = leaves_fn(c, c.pre)
    o = c.outer[-1]
    LV = prefix_leaves(c, lv, c.a.requirements, o['index'])
    x = q()
    i = fresh('i', L.I)
    own0, own1 = _own(c, c.pre), _own(c, c.cur)
    if c.index is not None:
        part = lambda x_: Exists([i], And(0 <= i, i < c.index, Select(lv(c.pre.lat(c.iterlist, i)), x_)))
    else:
        e = q()
        part = lambda x_: Exists([e], And(Select(c.visited, e), Select(lv(e), x_)))
    seen = lambda x_: Or(LV(x_), part(x_))
    return [
        ('add-mode', Implies(Not(c.a.remove), ForAll([x], c.cur.mem(own1, x) ==
                                                     Or(c.pre.mem(own0, x), And(seen(x), x != c.a.self)),
                                                     patterns=[c.cur.mem(own1, x)]))),
        ('remove-mode', Implies(c.a.remove,
            ForAll([x], Implies(seen(x), c.pre.mem(own0, x)), patterns=[c.pre.mem(own0, x)]))),
        ('remove-mode-result', Implies(c.a.remove,
            ForAll([x], c.cur.mem(own1, x) == And(c.pre.mem(own0, x), Not(seen(x))), patterns=[c.cur.mem(own1, x)]))),
        ('frame[elems]', _req_frame(c)),
        ('frame[lists-and-roles]', _req_lists(c)),
    ]


def _cl(fn, labels, key):
    return [(lab, (lambda lab: lambda c: dict(c.memo(key, lambda: fn(c)))[lab])(lab)) for lab in labels]


_RQ = ['add-mode', 'remove-mode', 'remove-mode-result', 'frame[elems]', 'frame[lists-and-roles]']
c.loop(0, inv=_cl(_rq_outer, _RQ, 'rq0'))
c.loop(1, inv=_cl(_rq_inner, _RQ, 'rq1'))


# ---------------------------------------------------------------- Sequence._flatten
FS = 'sequence.py'


def item_len(st, x):
    """length of what one argument contributes to the flattened list"""
    return If(x == NONE, 0, If(isa['AbstractJob'](x), 1, If(isa['Sequence'](x), st.llen(st.f('seqjobs', x)), 0)))


def item_has(st, x, y):
    """y is one of the jobs argument x contributes"""
    i = fresh('i', L.I)
    sj = st.f('seqjobs', x)
    return Or(And(isa['AbstractJob'](x), y == x),
              And(isa['Sequence'](x), x != NONE, Not(isa['AbstractJob'](x)),
                  Exists([i], And(0 <= i, i < st.llen(sj), st.lat(sj, i) == y))))


def flat_spec(c, st, args, res, n_items, off):
    """res = flat(args[0:n_items]) : positional characterisation with the offset ghost `off`
    (off(k) = total length contributed by the first k arguments), DESIGN 3.3 / 6-C19"""
    k, p = fresh('k', L.I), fresh('p', L.I)
    a = lambda k_: c.pre.lat(args, k_)
    sj = lambda k_: c.pre.f('seqjobs', a(k_))
    return And(
        st.llen(res) == off(n_items),
        ForAll([k], Implies(And(0 <= k, k < n_items, isa['AbstractJob'](a(k))), st.lat(res, off(k)) == a(k)),
               patterns=[off(k)]),
        ForAll([k, p], Implies(And(0 <= k, k < n_items, isa['Sequence'](a(k)), Not(isa['AbstractJob'](a(k))),
                                   a(k) != NONE, 0 <= p, p < c.pre.llen(sj(k))),
                               st.lat(res, off(k) + p) == c.pre.lat(sj(k), p)),
               patterns=[z3.MultiPattern(off(k), c.pre.lat(sj(k), p))]),
        # the same fact, indexed by the position in the result (usable when the position is what is known)
        ForAll([k, p], Implies(And(0 <= k, k < n_items, isa['Sequence'](a(k)), Not(isa['AbstractJob'](a(k))),
                                   a(k) != NONE, off(k) <= p, p < off(k + 1)),
                               st.lat(res, p) == c.pre.lat(sj(k), p - off(k))),
               patterns=[z3.MultiPattern(off(k), st.lat(res, p))]))


def flat_members(c, st, args, res, n_items):
    """set view: y is in the result iff some argument contributes it; the result holds live jobs only"""
    y = q()
    k, p = fresh('k', L.I), fresh('p', L.I)
    inres = lambda y_: Exists([p], And(0 <= p, p < st.llen(res), st.lat(res, p) == y_))
    contributed = lambda y_: Exists([k], And(0 <= k, k < n_items, item_has(c.pre, c.pre.lat(args, k), y_)))
    return And(ForAll([y], Implies(contributed(y), inres(y))),
               ForAll([p], Implies(And(0 <= p, p < st.llen(res)),
                                   And(contributed(st.lat(res, p)), isa['AbstractJob'](st.lat(res, p)),
                                       st.alive(st.lat(res, p)))), patterns=[st.lat(res, p)]))


def flatten_args_ok(st, args):
    """input validity: sequences among the arguments hold live jobs"""
    k, p = fresh('k', L.I), fresh('p', L.I)
    x = st.lat(args, k)
    sj = st.f('seqjobs', x)
    return And(st.llen(args) >= 0,
               ForAll([k], Implies(And(0 <= k, k < st.llen(args)), Or(x == NONE, st.alive(x))), patterns=[st.lat(args, k)]),
               _seqs_ok(st, args))


def _seqs_ok(st, args):
    k, p = fresh('k', L.I), fresh('p', L.I)
    x = st.lat(args, k)
    sj = st.f('seqjobs', x)
    return ForAll([k], Implies(And(0 <= k, k < st.llen(args), isa['Sequence'](x)),
                               And(st.alive(sj), sj != args, st.llen(sj) >= 0,
                                   ForAll([p], Implies(And(0 <= p, p < st.llen(sj)),
                                                       And(isa['AbstractJob'](st.lat(sj, p)), st.alive(st.lat(sj, p)))),
                                          patterns=[st.lat(sj, p)]))),
                  patterns=[st.lat(args, k)])


c = contract('Sequence._flatten', FS).param('sequences_or_jobs', 'list').returns('list')
c.for_props('C19')
c.fieldmap = {'jobs': 'seqjobs'}
c.requires('arguments-are-jobs-sequences-or-None', lambda c: flatten_args_ok(c.pre, c.a.sequences_or_jobs))
c.modifies('$alive', '$llen', '$lat')


OFF_ITEMOF = {}


def define_off(c, args):
    """the offset ghost: off(0) = 0, off(k+1) = off(k) + (length contributed by argument k).
    A definition by primitive recursion (always has a solution): sound definitional extension."""
    off = z3.Function(L.fresh_name('off'), L.I, L.I)
    k = fresh('k', L.I)
    m = fresh('k', L.I)
    qq = fresh('p', L.I)
    itemof = z3.Function(L.fresh_name('itemof'), L.I, L.I)
    c.fact(off(0) == 0,
           ForAll([k], Implies(0 <= k, And(off(k + 1) == off(k) + item_len(c.pre, c.pre.lat(args, k)), off(k) >= 0,
                                          off(k + 1) >= off(k))), patterns=[off(k)]),
           # L-OFF-MONO / L-OFF-INV: consequences (by induction on k) of the recursive definition, item lengths
           # being >= 0; proved in lemmas/Offsets.lean, stated here as lemma facts
           ForAll([k, m], Implies(And(0 <= k, k <= m), off(k) <= off(m)), patterns=[z3.MultiPattern(off(k), off(m))]),
           ForAll([qq, m], Implies(And(0 <= qq, 0 <= m, qq < off(m)),
                                   And(0 <= itemof(qq), itemof(qq) < m, off(itemof(qq)) <= qq,
                                       qq < off(itemof(qq) + 1))), patterns=[z3.MultiPattern(itemof(qq), off(m))]))
    OFF_ITEMOF[off.name()] = itemof
    return off


def _fl_off(c):
    if c.skolems is not None and 'off' in c.skolems:
        off, axs = c.skolems['off']
    else:
        sink = type(c)(c.pre, c.pre, c.args)
        off = define_off(sink, c.a.sequences_or_jobs)
        axs = list(sink.defs)
        c.skolem('off', lambda: (off, axs))
    c.fact(axs)
    return off


def _fl_post(c):
    args = c.a.sequences_or_jobs
    if c.mode == 'assume':
        off = define_off(c, args)
        c.cur.g['$flat-off'] = off
        c.cur.g['$flat-res'] = c.result
        c.cur.g['$flat-args'] = args
    else:
        off = _fl_off(c)
    return flat_spec(c, c.cur, args, c.result, c.pre.llen(args), off)


c.ensures('result-is-the-flattened-list', _fl_post, props=['C19'])
c.ensures('result-fresh', lambda c: And(Not(c.pre.alive(c.result)), c.cur.alive(c.result), isa['list'](c.result)))
c.ensures('elements-are-live-jobs', lambda c: And(c.cur.llen(c.result) >= 0, seq_jobs_ok(c.cur, c.result)))
c.ensures('frame[lists]', lambda c: (lambda s: ForAll([s], Implies(c.pre.alive(s), And(
    c.cur.llen(s) == c.pre.llen(s), Select(c.cur.H('$lat'), s) == Select(c.pre.H('$lat'), s))),
    patterns=[c.cur.llen(s), Select(c.cur.H('$lat'), s)]))(q()))


def seq_jobs_ok(st, sj):
    p = fresh('p', L.I)
    return ForAll([p], Implies(And(0 <= p, p < st.llen(sj)), And(isa['AbstractJob'](st.lat(sj, p)), st.alive(st.lat(sj, p)))),
                  patterns=[st.lat(sj, p)])


def _fl_loop(c):
    st = c.cur
    args = c.a.sequences_or_jobs
    res = st.env['result'].t
    s = q()
    return [
        ('flat-of-the-prefix', flat_spec(c, st, args, res, c.index, _fl_off(c))),
        ('result-fresh', And(Not(c.pre.alive(res)), st.alive(res), isa['list'](res))),
        ('elements-are-live-jobs', And(st.llen(res) >= 0, seq_jobs_ok(st, res))),
        ('frame[lists]', ForAll([s], Implies(c.pre.alive(s), And(
            st.llen(s) == c.pre.llen(s), Select(st.H('$lat'), s) == Select(c.pre.H('$lat'), s))),
            patterns=[st.llen(s), Select(st.H('$lat'), s)])),
    ]


def _fl_hints(h, e):
    """one step of the loop: what was in the list stays where it was; what the current argument contributes
    lands from offset off(idx)"""
    hs, st = h.cur, e.cur
    args = e.a.sequences_or_jobs
    off = _fl_off(e)
    idx = h.index
    res = st.env['result'].t
    x = h.elem
    i, p, k = fresh('i', L.I), fresh('p', L.I), fresh('k', L.I)
    sj = e.pre.f('seqjobs', x)
    return [
        L.Lemma('offsets-before-the-current-one', ForAll([k], Implies(And(0 <= k, k <= idx), And(
            off(k) <= off(idx), Implies(k < idx, off(k + 1) <= off(idx)))), patterns=[off(k)])),
        L.Lemma('prefix-of-the-list-unchanged', ForAll([i], Implies(And(0 <= i, i < off(idx)),
                                                                    st.lat(res, i) == hs.lat(res, i)),
                                                       patterns=[st.lat(res, i)])),
        L.Lemma('a-sequence-lands-at-the-current-offset', Implies(
            And(isa['Sequence'](x), Not(isa['AbstractJob'](x)), x != NONE),
            ForAll([p], Implies(And(0 <= p, p < e.pre.llen(sj)), st.lat(res, off(idx) + p) == e.pre.lat(sj, p)),
                   patterns=[e.pre.lat(sj, p)]))),
        L.Lemma('a-job-lands-at-the-current-offset', Implies(isa['AbstractJob'](x), st.lat(res, off(idx)) == x)),
    ]


c.loop(0, inv=_cl(_fl_loop, ['flat-of-the-prefix', 'result-fresh', 'elements-are-live-jobs', 'frame[lists]'], 'fl'),
       hints=_fl_hints)


# ---------------------------------------------------------------- PureScheduler.update / add / remove
FP = 'purescheduler.py'


def contributed(st, args, y):
    """some argument of the list `args` contributes job y to the flattened list"""
    k = fresh('k', L.I)
    return Exists([k], And(0 <= k, k < st.llen(args), item_has(st, st.lat(args, k), y)))


c = contract('PureScheduler.update', FP).param('self').param('jobs', 'list').returns('ref')
c.for_props('C19')
c.requires('self-is-scheduler', lambda c: is_sched(c.a.self))
c.requires('arguments-are-jobs-sequences-or-None', lambda c: flatten_args_ok(c.pre, c.a.jobs))
c.modifies('$alive', '$llen', '$lat', '$elems', '$setrole')
def _upd_main(c):
    if c.mode == 'assume':
        c.cur.g['$update-call'] = dict(pre=c.pre)
    y = q()
    return ForAll([y], member(c.cur, c.a.self, y) == Or(member(c.pre, c.a.self, y), contributed(c.pre, c.a.jobs, y)),
                  patterns=[member(c.cur, c.a.self, y)])


c.ensures('registers-exactly-the-jobs-involved', _upd_main, props=['C19'])
c.ensures('returns-self', lambda c: c.result == c.a.self, props=['C19'])
c.ensures('frame[elems]', lambda c: (lambda s: ForAll([s], Implies(
    And(c.pre.alive(s), s != c.pre.f('jobs', c.a.self)), c.cur.elems(s) == c.pre.elems(s)),
    patterns=[c.cur.elems(s)]))(q()))
c.ensures('frame[lists]', lambda c: (lambda s: ForAll([s], Implies(c.pre.alive(s), And(
    c.cur.llen(s) == c.pre.llen(s), Select(c.cur.H('$lat'), s) == Select(c.pre.H('$lat'), s))),
    patterns=[c.cur.llen(s), Select(c.cur.H('$lat'), s)]))(q()))
c.ensures('frame[roles]', lambda c: roles_frame(c.pre, c.cur))


def flat_view_lemmas(c, st):
    """the two directions between positions of the flattened list and the arguments (via L-OFF-INV)"""
    off, res, args = st.g.get('$flat-off'), st.g.get('$flat-res'), st.g.get('$flat-args')
    if off is None:
        return []
    itemof = OFF_ITEMOF[off.name()]
    qq, k, p = fresh('p', L.I), fresh('k', L.I), fresh('p', L.I)
    n = c.pre.llen(args)
    a = lambda k_: c.pre.lat(args, k_)
    sj = lambda k_: c.pre.f('seqjobs', a(k_))
    io = lambda q_: itemof(q_)
    inrange = lambda q_: And(0 <= q_, q_ < st.llen(res))
    pat = lambda q_: [st.lat(res, q_)]
    return [
        L.Lemma('position-lies-in-the-span-of-its-argument', ForAll([qq], Implies(inrange(qq), And(
            0 <= io(qq), io(qq) < n, off(io(qq)) <= qq, qq < off(io(qq) + 1),
            off(io(qq) + 1) == off(io(qq)) + item_len(c.pre, a(io(qq))))), patterns=pat(qq))),
        L.Lemma('that-argument-is-a-job-or-a-non-empty-sequence', ForAll([qq], Implies(inrange(qq), And(
            a(io(qq)) != NONE, Or(isa['AbstractJob'](a(io(qq))), isa['Sequence'](a(io(qq)))))), patterns=pat(qq))),
        L.Lemma('position-of-a-job-argument', ForAll([qq], Implies(And(inrange(qq), isa['AbstractJob'](a(io(qq)))),
                                                                  st.lat(res, qq) == a(io(qq))), patterns=pat(qq))),
        L.Lemma('position-inside-a-sequence-argument', ForAll([qq], Implies(
            And(inrange(qq), isa['Sequence'](a(io(qq))), Not(isa['AbstractJob'](a(io(qq))))),
            And(st.lat(res, qq) == c.pre.lat(sj(io(qq)), qq - off(io(qq))), 0 <= qq - off(io(qq)),
                qq - off(io(qq)) < c.pre.llen(sj(io(qq))))), patterns=pat(qq))),
        L.Lemma('every-position-holds-a-job-contributed-by-its-argument', ForAll([qq], Implies(
            And(0 <= qq, qq < st.llen(res)),
            And(0 <= itemof(qq), itemof(qq) < n, item_has(c.pre, a(itemof(qq)), st.lat(res, qq)),
                isa['AbstractJob'](st.lat(res, qq)), st.alive(st.lat(res, qq)))), patterns=[st.lat(res, qq)])),
        L.Lemma('a-job-argument-sits-at-its-offset', ForAll([k], Implies(
            And(0 <= k, k < n, isa['AbstractJob'](a(k))), And(st.lat(res, off(k)) == a(k), 0 <= off(k),
                                                              off(k) < st.llen(res))), patterns=[a(k)])),
        L.Lemma('the-jobs-of-a-sequence-argument-sit-from-its-offset', ForAll([k, p], Implies(
            And(0 <= k, k < n, isa['Sequence'](a(k)), Not(isa['AbstractJob'](a(k))), a(k) != NONE,
                0 <= p, p < c.pre.llen(sj(k))),
            And(st.lat(res, off(k) + p) == c.pre.lat(sj(k), p), 0 <= off(k) + p, off(k) + p < st.llen(res))),
            patterns=[c.pre.lat(sj(k), p)])),
    ]


def _upd_hints(c):
    return flat_view_lemmas(c, c.cur)


c.post_hints = _upd_hints

c = contract('PureScheduler.add', FP).param('self').param('job').returns('ref')
c.for_props('C19')
c.requires('self-is-scheduler', lambda c: is_sched(c.a.self))
c.requires('job-is-a-job-or-a-sequence', lambda c: Or(
    c.a.job == NONE, And(isa['AbstractJob'](c.a.job), c.pre.alive(c.a.job)),
    And(isa['Sequence'](c.a.job), flatten_args_ok_one(c.pre, c.a.job))))
c.modifies('$alive', '$llen', '$lat', '$elems', '$setrole')
c.ensures('registers-exactly-the-jobs-involved', lambda c: (lambda y: ForAll([y],
          member(c.cur, c.a.self, y) == Or(member(c.pre, c.a.self, y), item_has(c.pre, c.a.job, y)),
          patterns=[member(c.cur, c.a.self, y)]))(q()), props=['C19'])
c.ensures('returns-the-job', lambda c: c.result == c.a.job, props=['C19'])
c.ensures('frame[elems]', lambda c: (lambda s: ForAll([s], Implies(
    And(c.pre.alive(s), s != c.pre.f('jobs', c.a.self)), c.cur.elems(s) == c.pre.elems(s)),
    patterns=[c.cur.elems(s)]))(q()))
c.ensures('frame[lists]', lambda c: (lambda s: ForAll([s], Implies(c.pre.alive(s), And(
    c.cur.llen(s) == c.pre.llen(s), Select(c.cur.H('$lat'), s) == Select(c.pre.H('$lat'), s))),
    patterns=[c.cur.llen(s), Select(c.cur.H('$lat'), s)]))(q()))
c.ensures('frame[roles]', lambda c: roles_frame(c.pre, c.cur))

c = contract('PureScheduler.remove', FP).param('self').param('job').returns('ref')
c.for_props('C19')
c.requires('self-is-scheduler', lambda c: is_sched(c.a.self))
c.modifies('$elems')
c.ensures('removes-exactly-the-job', lambda c: And(member(c.pre, c.a.self, c.a.job), (lambda y: ForAll([y],
          member(c.cur, c.a.self, y) == And(member(c.pre, c.a.self, y), y != c.a.job),
          patterns=[member(c.cur, c.a.self, y)]))(q())), props=['C19'])
c.ensures('returns-self', lambda c: c.result == c.a.self, props=['C19'])
c.raises('KeyError', 'only-if-not-a-member', lambda c: Not(member(c.pre, c.a.self, c.a.job)), props=['C19'])
c.raises('KeyError', 'nothing-changed', lambda c: c.cur.H('$elems') == c.pre.H('$elems'))


def flatten_args_ok_one(st, x):
    p = fresh('p', L.I)
    sj = st.f('seqjobs', x)
    return And(st.alive(sj), st.llen(sj) >= 0,
               ForAll([p], Implies(And(0 <= p, p < st.llen(sj)),
                                   And(isa['AbstractJob'](st.lat(sj, p)), st.alive(st.lat(sj, p)))),
                      patterns=[st.lat(sj, p)]))


# ---------------------------------------------------------------- Sequence
def chain_edges(c, st, lst, upto):
    """(a, b): a is the job right after b among the first `upto`+1 positions of list lst, a is not b"""
    i = fresh('i', L.I)
    return lambda a, b: Exists([i], And(0 <= i, i < upto, st.lat(lst, i + 1) == a, st.lat(lst, i) == b, a != b))


def req_changed_only_by(c, st, extra):
    """requirement edges now = requirement edges on entry + extra(a, b)"""
    a, b = q(2)
    return ForAll([a, b], Implies(And(isa['AbstractJob'](a), c.pre.alive(a)),
                                  E(st, a, b) == Or(E(c.pre, a, b), extra(a, b))), patterns=[E(st, a, b)])


def seq_jobs_ok(st, sj):
    p = fresh('p', L.I)
    return ForAll([p], Implies(And(0 <= p, p < st.llen(sj)), And(isa['AbstractJob'](st.lat(sj, p)), st.alive(st.lat(sj, p)))),
                  patterns=[st.lat(sj, p)])


c = contract('Sequence.requires', FS).param('self').param('requirements', 'varargs').returns('none')
c.for_props('C19')
c.fieldmap = {'jobs': 'seqjobs'}
c.ghost_params = {'ARG': (new_ARG, NO_ARG)}
c.ghost_pass = {'AbstractJob.requires': lambda cc: {'ARG': cc.ghost['ARG']}}
c.requires('self-is-a-sequence', lambda c: And(isa['Sequence'](c.a.self), c.pre.alive(c.pre.f('seqjobs', c.a.self)),
                                               seq_jobs_ok(c.pre, c.pre.f('seqjobs', c.a.self)),
                                               c.pre.llen(c.pre.f('seqjobs', c.a.self)) >= 0))
c.requires('argument-structure', lambda c: And(arg_closure(c.pre, c.ghost['ARG']), (lambda i: ForAll([i], Implies(
    And(0 <= i, i < c.pre.llen(c.a.requirements)), argok(c.pre, c.pre.lat(c.a.requirements, i), c.ghost['ARG'])),
    patterns=[c.pre.lat(c.a.requirements, i)]))(fresh('i', L.I)), Not(c.ghost['ARG'](c.a.requirements))))
c.modifies('$elems', '$alive', '$llen', '$lat', '$setrole')


def _sr_post(c):
    sj = c.pre.f('seqjobs', c.a.self)
    first = c.pre.lat(sj, 0)
    lv = leaves_fn(c, c.pre)
    LV = prefix_leaves(c, lv, c.a.requirements, c.pre.llen(c.a.requirements))
    nonempty = c.pre.llen(sj) > 0
    return req_changed_only_by(c, c.cur, lambda a, b: And(nonempty, a == first, LV(b), b != first))


c.ensures('gives-the-requirements-to-the-first-job-only', _sr_post, props=['C19'])


def _seq_arg_struct(c, names):
    ARG = c.ghost['ARG']
    return And(arg_closure(c.pre, ARG), *[argok(c.pre, c.args[n], ARG) for n in names])


c = contract('Sequence.__init__', FS).param('self').param('sequences_or_jobs', 'varargs') \
    .param('required', 'kw:ref', None).param('scheduler', 'kw:ref', None).returns('none')
c.for_props('C19')
c.fieldmap = {'jobs': 'seqjobs'}
c.ghost_params = {'ARG': (new_ARG, NO_ARG)}
c.ghost_pass = {'AbstractJob.requires': lambda cc: {'ARG': cc.ghost['ARG']}}
c.requires('self-is-a-sequence', lambda c: isa['Sequence'](c.a.self))
c.requires('arguments-are-jobs-sequences-or-None', lambda c: flatten_args_ok(c.pre, c.a.sequences_or_jobs))
c.requires('argument-structure-of-required', lambda c: _seq_arg_struct(c, ['required']))
c.requires('scheduler-is-None-or-a-scheduler', lambda c: Or(c.a.scheduler == NONE,
                                                            And(is_sched(c.a.scheduler), c.pre.alive(c.a.scheduler))))
c.modifies('$elems', '$alive', '$llen', '$lat', '$setrole', 'seqjobs', 'scheduler')


def _si_jobs(c):
    """self.jobs is the flattened argument list"""
    sj = c.cur.f('seqjobs', c.a.self)
    off = c.cur.g.get('$flat-off') if c.mode == 'prove' else define_off(c, c.a.sequences_or_jobs)
    if off is None:
        return z3.BoolVal(False)
    if c.mode != 'prove':
        c.cur.g['$flat-off'] = off
        c.cur.g['$flat-res'] = sj
        c.cur.g['$flat-args'] = c.a.sequences_or_jobs
    return And(flat_spec(c, c.cur, c.a.sequences_or_jobs, sj, c.pre.llen(c.a.sequences_or_jobs), off),
               Not(c.pre.alive(sj)), c.cur.alive(sj), isa['list'](sj))


def _si_edges(c):
    sj = c.cur.f('seqjobs', c.a.self)
    n = c.cur.llen(sj)
    first = c.cur.lat(sj, 0)
    lv = leaves_fn(c, c.pre)
    chain = chain_edges(c, c.cur, sj, z3.If(n >= 1, n - 1, 0))
    return req_changed_only_by(c, c.cur, lambda a, b: Or(
        chain(a, b), And(n > 0, a == first, Select(lv(c.a.required), b), b != first)))


def _si_sched(c):
    S = c.a.scheduler
    sj = c.cur.f('seqjobs', c.a.self)
    y = q()
    p = fresh('p', L.I)
    inlist = lambda y_: Exists([p], And(0 <= p, p < c.cur.llen(sj), c.cur.lat(sj, p) == y_))
    return And(c.cur.f('scheduler', c.a.self) == S,
               Implies(S != NONE, ForAll([y], member(c.cur, S, y) == Or(member(c.pre, S, y), inlist(y)),
                                         patterns=[member(c.cur, S, y)])))


c.ensures('jobs-is-the-flattened-list', _si_jobs, props=['C19'])
c.ensures('each-job-requires-its-predecessor-and-the-first-gets-required', _si_edges, props=['C19'])
c.ensures('registers-every-job-in-the-scheduler', _si_sched, props=['C19'])


def _si_loop(c):
    st = c.cur
    sj = st.f('seqjobs', c.a.self)
    s = q()
    return [
        ('chain-of-the-visited-pairs', req_changed_only_by(c, st, chain_edges(c, st, sj, c.index))),
        ('lists-stable', And(st.H('seqjobs') == c.loop_pre.H('seqjobs'),
                             ForAll([s], Implies(c.loop_pre.alive(s), And(
                                 st.llen(s) == c.loop_pre.llen(s),
                                 Select(st.H('$lat'), s) == Select(c.loop_pre.H('$lat'), s),
                                 st.f('$setrole', s) == c.loop_pre.f('$setrole', s))), patterns=[st.llen(s), Select(st.H('$lat'), s)]))),
        ('other-sets', ForAll([s], Implies(And(c.pre.alive(s), st.f('$setrole', s) != 1), st.elems(s) == c.pre.elems(s)),
                              patterns=[st.elems(s)])),
        ('argument-structure-stable', And(arg_closure(st, c.ghost['ARG']), argok(st, c.a.required, c.ghost['ARG']))),
    ]


c.loop(0, inv=_cl(_si_loop, ['chain-of-the-visited-pairs', 'lists-stable', 'other-sets', 'argument-structure-stable'], 'si'))
c.post_hints = lambda c: flat_view_lemmas(c, c.cur) if c.mode == 'prove' else []


# ---------------------------------------------------------------- Sequence.append
c = contract('Sequence.append', FS).param('self').param('sequences_or_jobs', 'varargs').returns('none')
c.for_props('C19')
c.fieldmap = {'jobs': 'seqjobs'}
c.requires('self-is-a-sequence', lambda c: And(
    isa['Sequence'](c.a.self), c.pre.alive(c.pre.f('seqjobs', c.a.self)), isa['list'](c.pre.f('seqjobs', c.a.self)),
    seq_jobs_ok(c.pre, c.pre.f('seqjobs', c.a.self)), c.pre.llen(c.pre.f('seqjobs', c.a.self)) >= 0,
    c.pre.f('seqjobs', c.a.self) != c.a.sequences_or_jobs))
c.requires('arguments-are-jobs-sequences-or-None', lambda c: flatten_args_ok(c.pre, c.a.sequences_or_jobs))
c.requires('the-sequence-is-not-appended-to-itself', lambda c: (lambda k: ForAll([k], Implies(
    And(0 <= k, k < c.pre.llen(c.a.sequences_or_jobs)), c.pre.lat(c.a.sequences_or_jobs, k) != c.a.self),
    patterns=[c.pre.lat(c.a.sequences_or_jobs, k)]))(fresh('k', L.I)))
c.requires('scheduler-is-None-or-a-scheduler', lambda c: Or(
    c.pre.f('scheduler', c.a.self) == NONE,
    And(is_sched(c.pre.f('scheduler', c.a.self)), c.pre.alive(c.pre.f('scheduler', c.a.self)))))
c.modifies('$elems', '$alive', '$llen', '$lat', '$setrole')


def _ap_jobs(c):
    """self.jobs (same list object) = old jobs ++ flat(arguments)"""
    sj = c.pre.f('seqjobs', c.a.self)
    n0 = c.pre.llen(sj)
    args = c.a.sequences_or_jobs
    off = c.cur.g.get('$flat-off')
    res = c.cur.g.get('$flat-res')
    i = fresh('i', L.I)
    same_obj = c.cur.f('seqjobs', c.a.self) == sj
    keep = ForAll([i], Implies(And(0 <= i, i < n0), c.cur.lat(sj, i) == c.pre.lat(sj, i)), patterns=[c.cur.lat(sj, i)])
    if off is None:
        # nothing flattened (no argument at all): the list is untouched
        return And(same_obj, c.cur.llen(sj) == n0, keep)
    return And(same_obj, c.cur.llen(sj) == n0 + off(c.pre.llen(args)), keep,
               ForAll([i], Implies(And(0 <= i, i < off(c.pre.llen(args))), c.cur.lat(sj, n0 + i) == c.cur.lat(res, i)),
                      patterns=[c.cur.lat(res, i)]))


def _ap_edges(c):
    """new edges: exactly the chain links from the old last job onwards"""
    sj = c.pre.f('seqjobs', c.a.self)
    n0, n1 = c.pre.llen(sj), c.cur.llen(sj)
    i = fresh('i', L.I)
    start = z3.If(n0 >= 1, n0 - 1, 0)
    link = lambda a, b: Exists([i], And(start <= i, i < n1 - 1, c.cur.lat(sj, i + 1) == a, c.cur.lat(sj, i) == b, a != b))
    return req_changed_only_by(c, c.cur, link)


def _ap_sched(c):
    S = c.pre.f('scheduler', c.a.self)
    sj = c.pre.f('seqjobs', c.a.self)
    n0 = c.pre.llen(sj)
    y = q()
    p = fresh('p', L.I)
    isnew = lambda y_: Exists([p], And(n0 <= p, p < c.cur.llen(sj), c.cur.lat(sj, p) == y_))
    return Implies(S != NONE, ForAll([y], member(c.cur, S, y) == Or(member(c.pre, S, y), isnew(y)),
                                     patterns=[member(c.cur, S, y)]))


c.ensures('jobs-extended-by-the-flattened-arguments', _ap_jobs, props=['C19'])
c.ensures('chains-the-new-jobs-behind-the-last-one-and-with-one-another', _ap_edges, props=['C19'])
c.ensures('registers-the-new-jobs-in-the-scheduler', _ap_sched, props=['C19'])


def _ap_loop(c):
    st = c.cur
    lp = c.loop_pre
    chain = st.env['chain'].t
    s = q()
    return [
        ('links-of-the-visited-pairs', req_changed_only_by(c, st, chain_edges(c, st, chain, c.index))),
        ('lists-stable', And(st.H('seqjobs') == lp.H('seqjobs'), st.H('scheduler') == lp.H('scheduler'),
                             ForAll([s], Implies(lp.alive(s), And(
                                 st.llen(s) == lp.llen(s), Select(st.H('$lat'), s) == Select(lp.H('$lat'), s),
                                 st.f('$setrole', s) == lp.f('$setrole', s))), patterns=[st.llen(s), Select(st.H('$lat'), s)]))),
        ('other-sets', ForAll([s], Implies(And(c.pre.alive(s), st.f('$setrole', s) != 1), st.elems(s) == c.pre.elems(s)),
                              patterns=[st.elems(s)])),
    ]


c.loop(0, inv=_cl(_ap_loop, ['links-of-the-visited-pairs', 'lists-stable', 'other-sets'], 'ap'))
def _ap_post_hints(c):
    if c.mode != 'prove' or '$flat-off' not in c.cur.g or 'chain' not in c.cur.env:
        return []
    st = c.cur
    sj = c.pre.f('seqjobs', c.a.self)
    n0 = c.pre.llen(sj)
    chain = st.env['chain'].t
    res = st.g['$flat-res']
    off = st.g['$flat-off']
    nnew = off(c.pre.llen(c.a.sequences_or_jobs))
    start = z3.If(n0 >= 1, n0 - 1, 0)
    i = fresh('i', L.I)
    pre_l = []
    up = st.g.get('$update-call')
    if up is not None:
        us = up['pre']
        pre_l = [L.Lemma('the-registration-leaves-the-lists-alone', And(
            st.llen(sj) == us.llen(sj), Select(st.H('$lat'), sj) == Select(us.H('$lat'), sj),
            st.llen(res) == us.llen(res), Select(st.H('$lat'), res) == Select(us.H('$lat'), res),
            st.llen(chain) == us.llen(chain), Select(st.H('$lat'), chain) == Select(us.H('$lat'), chain)))]
    return pre_l + [
        L.Lemma('length-of-the-chain', st.llen(chain) == z3.If(n0 >= 1, 1, 0) + nnew),
        L.Lemma('the-new-list-is-still-there', And(st.llen(res) == nnew, st.alive(res))),
        L.Lemma('the-extended-list', And(st.llen(sj) == n0 + nnew, ForAll([i], Implies(
            And(0 <= i, i < n0 + nnew), st.lat(sj, i) == If(i < n0, c.pre.lat(sj, i), st.lat(res, i - n0))),
            patterns=[st.lat(sj, i)]))),
        L.Lemma('the-chain-is-the-tail-of-the-extended-list', ForAll([i], Implies(
            And(0 <= i, i < st.llen(chain)), st.lat(chain, i) == st.lat(sj, start + i)), patterns=[st.lat(chain, i)])),
    ] + _ap_link_lemmas(c, st, sj, chain, start)


def _ap_link_lemmas(c, st, sj, chain, start):
    a, b = q(2)
    i = fresh('i', L.I)
    n1 = st.llen(sj)
    nc = st.llen(chain)
    npairs = z3.If(nc >= 1, nc - 1, 0)
    ce = lambda a_, b_: Exists([i], And(0 <= i, i < npairs, st.lat(chain, i + 1) == a_, st.lat(chain, i) == b_, a_ != b_))
    link = lambda a_, b_: Exists([i], And(start <= i, i < n1 - 1, st.lat(sj, i + 1) == a_, st.lat(sj, i) == b_, a_ != b_))
    E0 = lambda a_, b_: E(c.pre, a_, b_)
    return [
        L.Lemma('a-link-of-the-chain-is-a-link-of-the-tail', ForAll([a, b], Implies(ce(a, b), link(a, b)))),
        L.Lemma('a-link-of-the-tail-is-a-link-of-the-chain', ForAll([a, b], Implies(link(a, b), ce(a, b)))),
        L.Lemma('requirements-after-the-chain-loop-are-final', ForAll([a, b], Implies(
            And(isa['AbstractJob'](a), c.pre.alive(a)), E(st, a, b) == Or(E0(a, b), ce(a, b))), patterns=[E(st, a, b)])),
    ]


def _unused2():
    return []


c.post_hints = _ap_post_hints
