"""
Contract of PureScheduler.sanitize (property C16), with the flat tree predicates of DESIGN 5.1.
"""
import z3
from pyvc import logic as L
from pyvc.contracts_api import contract
from pyvc.logic import Ref, NONE, TRUE, FALSE, truthy, card, isa, fresh
from .spec import *

F = 'purescheduler.py'


def Jown(st, x, S=None):
    """member set of the scheduler that owns x.  Membership in the scheduler S the function is called on is read
    from the heap (graph surgery changes it); the levels below are described by the rigid owner/under."""
    if S is None:
        return st.elems(st.f('jobs', owner(x)))
    return If(member(st, S, x), J(st, S), st.elems(st.f('jobs', owner(x))))


def below(st, S, x):
    """x is a member of S, or lies in the subtree of a member of S"""
    m = q()
    return Or(member(st, S, x), Exists([m], And(member(st, S, m), under(x, m))))


def wf_top(st, S):
    """admissible tree rooted at S: members are jobs; what lies below each member is a well-formed rigid tree;
    the subtrees of distinct members are disjoint and do not contain S or members of S"""
    m, m2, x = q(3)
    return And(
        is_sched(S),
        ForAll([m], Implies(member(st, S, m), And(isa['AbstractJob'](m), st.alive(m), m != S, height(m) < height(S),
                                                  height(m) >= 0, Not(under(S, m)),
                                                  Implies(isa['PureScheduler'](m), wf_tree(st, m)))),
               patterns=[member(st, S, m)]),
        ForAll([m, x], Implies(And(member(st, S, m), under(x, m)), And(Not(member(st, S, x)), x != S)),
               patterns=[z3.MultiPattern(member(st, S, m), under(x, m))]),
        ForAll([m, m2, x], Implies(And(member(st, S, m), member(st, S, m2), m != m2), Not(And(under(x, m), under(x, m2)))),
               patterns=[z3.MultiPattern(member(st, S, m), under(x, m2))]))


def sane_obj(old, new, x, S=None):
    """the two link sets of x are the old ones restricted to the members of x's own scheduler"""
    r = q()
    Jx = Jown(old, x, S)
    return And(
        ForAll([r], new.mem(new.f('required', x), r) ==
               And(old.mem(old.f('required', x), r), Select(Jx, r)),
               patterns=[new.mem(new.f('required', x), r)]),
        ForAll([r], new.mem(new.f('_s_successors', x), r) ==
               And(old.mem(old.f('_s_successors', x), r), Select(Jx, r)),
               patterns=[new.mem(new.f('_s_successors', x), r)]))


def clean_obj(old, x, S=None):
    r = q()
    return ForAll([r], Implies(old.mem(old.f('required', x), r), Select(Jown(old, x, S), r)),
                  patterns=[old.mem(old.f('required', x), r)])


def untouched_obj(old, new, x):
    return And(new.elems(new.f('required', x)) == old.elems(old.f('required', x)),
               new.elems(new.f('_s_successors', x)) == old.elems(old.f('_s_successors', x)))


_PREDS = {}


def defpred(c, name, old, new, body, S):
    """named predicate  P(x) <=> body(x)  (definitional; keeps nested quantifiers behind an atom)"""
    key = (name, S.get_id()) + tuple(st.H(f).get_id() for st in (old, new) if st is not None
                                     for f in ('$elems', 'required', '_s_successors', 'jobs'))
    if key not in _PREDS:
        P = z3.Function(L.fresh_name(name), Ref, L.B)
        x = q()
        _PREDS[key] = (P, [ForAll([x], P(x) == body(x), patterns=[P(x)])])
    P, axs = _PREDS[key]
    c.fact(axs)
    return P


def saneP(c, old, new, S):
    return defpred(c, 'sane', old, new, lambda x: sane_obj(old, new, x, S), S)


def cleanP(c, old, S):
    return defpred(c, 'clean', old, None, lambda x: clean_obj(old, x, S), S)


def untP(c, old, new, S):
    return defpred(c, 'unt', old, new, lambda x: untouched_obj(old, new, x), S)


def Sane(c, old, new, S):
    x = q()
    P = saneP(c, old, new, S)
    return ForAll([x], Implies(below(old, S, x), P(x)), patterns=[P(x), member(old, S, x)])


def Clean(c, old, S):
    x = q()
    P = cleanP(c, old, S)
    return ForAll([x], Implies(below(old, S, x), P(x)), patterns=[P(x), member(old, S, x)])


def frame_links(old, new, S):
    """only the link sets (required, _s_successors) of objects below S may change"""
    s = q()
    own = old.f('$setowner', s)
    role = old.f('$setrole', s)
    mine = And(below(old, S, own), Or(role == 1, role == 2), old.alive(own), isa['AbstractJob'](own))
    return ForAll([s], Implies(Not(mine), new.elems(s) == old.elems(s)), patterns=[new.elems(s)])


c = contract('PureScheduler.sanitize', F).param('self').param('verbose', 'ref', None).returns('bool')
c.for_props('C16', 'C18')
c.decreases = lambda c: height(c.a.self)
c.requires('tree-axioms', lambda c: And(tree_axioms()))
c.requires('wf-tree', lambda c: wf_top(c.pre, c.a.self))
c.modifies('$elems')
c.ensures('sane-everywhere', lambda c: Sane(c, c.pre, c.cur, c.a.self), props=['C16'])


def _result_iff(c):
    if c.mode == 'assume':
        c.cur.g['sanitize-call'] = dict(pre=c.pre, self=c.a.self, result=c.result, post=c.cur.copy())
    return c.result == Clean(c, c.pre, c.a.self)


c.ensures('result-iff-nothing-had-to-be-removed', _result_iff, props=['C16'])
c.ensures('frame[links-under-self-only]', lambda c: frame_links(c.pre, c.cur, c.a.self))


def _san_inv(c):
    S = c.a.self
    V = c.visited
    m, x = q(2)
    Jset = J(c.pre, S)
    sane, clean, unt = saneP(c, c.pre, c.cur, S), cleanP(c, c.pre, S), untP(c, c.pre, c.cur, S)
    visited_clean = And(
        ForAll([m], Implies(Select(V, m), clean(m)), patterns=[Select(V, m)]),
        ForAll([m, x], Implies(And(Select(V, m), under(x, m)), clean(x)),
               patterns=[z3.MultiPattern(Select(V, m), under(x, m))]))
    return [
        ('visited-members-sane', ForAll([m], Implies(Select(V, m), sane(m)), patterns=[Select(V, m)])),
        ('below-visited-sane', ForAll([m, x], Implies(And(Select(V, m), under(x, m)), sane(x)),
                                      patterns=[z3.MultiPattern(Select(V, m), under(x, m))])),
        ('unvisited-members-untouched', ForAll([m], Implies(And(Select(Jset, m), Not(Select(V, m))), unt(m)),
                                               patterns=[Select(Jset, m)])),
        ('below-unvisited-untouched', ForAll([m, x], Implies(And(Select(Jset, m), Not(Select(V, m)),
                                                                 under(x, m)), unt(x)),
                                             patterns=[z3.MultiPattern(Select(Jset, m), under(x, m))])),
        ('changes-iff-visited-part-was-not-clean', c.var('changes') == Not(visited_clean)),
        ('frame[links-under-self-only]', frame_links(c.pre, c.cur, S)),
    ]


_SAN = ['visited-members-sane', 'below-visited-sane', 'unvisited-members-untouched',
        'below-unvisited-untouched', 'changes-iff-visited-part-was-not-clean',
        'frame[links-under-self-only]']


def _san_hints(h, e):
    """`before != after` is set inequality: new is a subset of old (K4), equal sets have equal card"""
    if h.elem is None:
        return []
    job = h.elem
    S = e.a.self
    old = h.cur.elems(h.cur.f('required', job))
    new = e.cur.elems(e.cur.f('required', job))
    x0 = fresh('x0', Ref)
    out = [L.K4(new, old), L.ext_at(new, old, x0)] + L.card_facts(old) + L.card_facts(new)
    call = e.cur.g.get('sanitize-call')
    if call is not None and call['self'].eq(job):
        # the nested call judged cleanliness / sanity in the state `mid` and relative to the nested scheduler;
        # below an unvisited member nothing had been touched yet, and its own scheduler is the same either way
        mid, post = call['pre'], call['post']
        cm, cp = cleanP(e, mid, job), cleanP(e, e.pre, S)
        sm, sp = saneP(e, mid, post, job), saneP(e, e.pre, e.cur, S)
        x = q()
        out.append(L.Lemma('nested-clean-is-entry-clean',
                           ForAll([x], Implies(under(x, job), cm(x) == cp(x)), patterns=[under(x, job)])))
        out.append(L.Lemma('nested-result-in-entry-terms',
                           call['result'] == ForAll([x], Implies(under(x, job), cp(x)),
                                                    patterns=[under(x, job)])))
        out.append(L.Lemma('nested-sane-is-sane-here',
                           ForAll([x], Implies(under(x, job), sp(x)), patterns=[under(x, job)])))
    return out


c.loop(0, inv=[(lab, (lambda lab: lambda c: dict(c.memo('san', lambda: _san_inv(c)))[lab])(lab))
               for lab in _SAN], hints=_san_hints)
