"""
Contracts of window.py (properties C07, C03, C06, C12, C14): the slot discipline of one activation of
`Window.run_job.<locals>.wrapped`, against the asyncio.Queue contract E5.

Per-activation ghost (DESIGN 6.0): `contrib` = number of queue items this activation has put and not yet
taken back (0 or 1), `others` = items held by the other activations (changes only at suspensions),
`bodycalls` = number of times job.co_run() was called.  qsize = others + contrib.
"""
import ast
import z3
from pyvc import logic as L
from pyvc.contracts_api import contract
from pyvc.logic import Ref, NONE, TRUE, FALSE, truthy, isa, fresh, V
from .spec import *
from .env_asyncio import vt

F = 'window.py'
L.register_ghost('$qmax', z3.ArraySort(Ref, L.I))      # maxsize of an asyncio.Queue


def G(st, name):
    return st.g[name]


# ---------------------------------------------------------------- E5: asyncio.Queue (assumed)
c = contract('Queue.put', None, kind='env').param('self').param('item').returns('none')
c.is_async = True
c.suspends = True
c.may_cancel = True
c.assumed = ['E5: asyncio.Queue.put returns only after adding one item, never exceeding maxsize (>0); '
             'raises only CancelledError, then the queue is unchanged']


def _put_post(c):
    st = c.cur
    qmax = st.f('$qmax', c.a.self)
    st.g['$contrib'] = st.g['$contrib'] + 1
    return Implies(qmax > 0, st.g['$others'] + st.g['$contrib'] <= qmax)


c.ensures('one-more-item-within-maxsize', _put_post)

c = contract('Queue.get', None, kind='env').param('self').returns('ref')
c.is_async = True
c.suspends = False          # only called here on a queue this activation has an item in (requires below)
c.assumed = ['E5: asyncio.Queue.get on a non-empty queue removes one item without suspending']
c.requires('queue-not-empty-so-get-does-not-suspend', lambda c: c.pre.g['$contrib'] >= 1)


def _get_post(c):
    st = c.cur
    st.g['$contrib'] = st.g['$contrib'] - 1
    return z3.BoolVal(True)


c.ensures('one-item-less', _get_post)

c = contract('Queue.full', None, kind='env').param('self').returns('bool')
c.assumed = ['E5: asyncio.Queue.full() / empty() / qsize() read the queue and change nothing']
c.ensures('full-iff-maxsize-reached', lambda c: c.result == And(
    c.cur.f('$qmax', c.a.self) > 0, c.cur.g['$others'] + c.cur.g['$contrib'] >= c.cur.f('$qmax', c.a.self))
    if '$contrib' in c.cur.g else z3.BoolVal(True))

c = contract('asyncio.sleep', None, kind='env').param('delay', 'any').returns('none')
c.is_async = True
c.suspends = True
c.may_cancel = True
c.assumed = ['E: asyncio.sleep suspends (also for a zero delay) and raises only CancelledError']

# ---------------------------------------------------------------- E9: body of an atomic job (assumed)
c = contract('AbstractJob.co_run', None, kind='env').param('self').returns('ref')
c.is_async = True
c.suspends = True
c.may_cancel = True
c.raise_fresh = False
c.assumed = ['E9/A-BODY: a job body returns any object or raises any exception; CancelledError only if cancelled; '
             'A-NO-TAMPER: it writes no attribute of a job or scheduler of the tree']
c.requires('body-entered-while-holding-a-slot',
           lambda c: c.pre.g['$contrib'] == 1 if '$contrib' in c.pre.g else z3.BoolVal(True))
c.requires('body-entered-at-most-once',
           lambda c: c.pre.g['$bodycalls'] == 0 if '$bodycalls' in c.pre.g else z3.BoolVal(True))


def _body_post(c):
    st = c.cur
    if '$bodycalls' in st.g:
        st.g['$bodycalls'] = st.g['$bodycalls'] + 1
    st.g['$body-value'] = c.result
    st.g['$body-finished'] = z3.BoolVal(True)
    return z3.BoolVal(True)


def _body_raise(c):
    st = c.cur
    if '$bodycalls' in st.g:
        st.g['$bodycalls'] = st.g['$bodycalls'] + 1
    st.g['$body-exc'] = c.exc
    st.g['$body-finished'] = z3.BoolVal(True)
    return z3.BoolVal(True)


c.ensures('returns-some-object', _body_post)
c.raises('Exception', 'raises-some-exception', _body_raise)
c.cancel_ensures = [('cancelled-in-the-body', lambda c: (c.cur.g.__setitem__(
    '$bodycalls', c.cur.g['$bodycalls'] + 1) if '$bodycalls' in c.cur.g else None) or z3.BoolVal(True))]


# ---------------------------------------------------------------- Window.__init__
c = contract('asyncio.Queue', None, kind='env').param('maxsize', 'kw:ref', 0).returns('ref')
c.assumed = ['E5: asyncio.Queue(maxsize=n) is a fresh empty queue of that maxsize']
c.modifies('$alive', '$qmax')
c.ensures('fresh-queue', lambda c: And(Not(c.pre.alive(c.result)), c.cur.alive(c.result), isa['Queue'](c.result),
                                       c.result != NONE,
                                       c.cur.f('$qmax', c.result) == z3.ToInt(L.numval(c.a.maxsize))))
c.ensures('allocates-only-the-queue', lambda c: allocates_only(c.pre, c.cur, 'Queue'))
c.ensures('other-queues-unchanged', lambda c: unchanged_field(c.pre, c.cur, '$qmax', lambda o: o == c.result))

c = contract('Window.__init__', F).param('self').param('jobs_window').returns('none')
c.for_props('C07')
c.requires('jobs_window-is-None-or-a-number', lambda c: Or(c.a.jobs_window == NONE, L.is_num(c.a.jobs_window)))
c.modifies('queue', '$qmax', '$alive', 'jobs_window')
c.ensures('queue-maxsize-is-the-window-size-or-0', lambda c: And(
    isa['Queue'](c.cur.f('queue', c.a.self)),
    Not(c.pre.alive(c.cur.f('queue', c.a.self))), c.cur.alive(c.cur.f('queue', c.a.self)),
    c.cur.f('$qmax', c.cur.f('queue', c.a.self)) ==
    If(c.a.jobs_window == NONE, 0, z3.ToInt(L.numval(c.a.jobs_window)))), props=['C07'])
c.ensures('allocates-only-the-queue', lambda c: allocates_only(c.pre, c.cur, 'Queue'))
c.ensures('frame[queue]', lambda c: unchanged_field(c.pre, c.cur, 'queue', lambda o: o == c.a.self))
c.ensures('frame[qmax]', lambda c: unchanged_field(
    c.pre, c.cur, '$qmax', lambda o: o == c.cur.f('queue', c.a.self)))
c.ensures('frame[jobs_window]', lambda c: unchanged_field(c.pre, c.cur, 'jobs_window', lambda o: o == c.a.self))


# ---------------------------------------------------------------- wrapped
c = contract('Window.run_job.<locals>.wrapped', F).returns('ref')
c.free('self').free('job')
c.for_props('C07', 'C03', 'C06', 'C12', 'C14', 'C02', 'C05', 'C08', 'C09', 'C11')
c.rely_fields = ['_running', '_state', '_exception', '_result', '$finished_vt', '$cancel_req', '$cancel_vt']


def _wrapped_ghost_init(st):
    st.g['$contrib'] = z3.IntVal(0)
    st.g['$bodycalls'] = z3.IntVal(0)
    st.g['$others'] = fresh('others', L.I)
    st.g['$vt'] = fresh('vt', L.R)
    # what the body returned / raised: unknown until the body has been called (a path that returns without
    # calling it cannot meet `returns-what-the-body-returned`)
    st.g['$body-value'] = fresh('nobodyvalue', L.Ref)
    st.g['$body-exc'] = fresh('nobodyexc', L.Ref)
    st.g['$body-finished'] = z3.BoolVal(False)
    st.assume(st.g['$others'] >= 0)


c.ghost_init = _wrapped_ghost_init
# a member is run through the body contract E9, whether it is an atomic job or a nested scheduler
# (Scheduler.co_run refines it: it returns or raises, DESIGN 6/C10)
c.dispatch_override = {'co_run': 'AbstractJob.co_run'}
c.requires('job-is-a-job', lambda c: And(isa['AbstractJob'](c.a.job), isa['Window'](c.a.self),
                                         isa['Queue'](c.pre.f('queue', c.a.self))))
# a job handed to the window is not running yet: checked where the task is created (_create_task, through E2) and
# kept until the first step of this coroutine by its own rely (nobody else writes this job's _running)
_NOT_RUNNING = ('job-not-running-at-entry', lambda c: Not(c.pre.f('_running', c.a.job)))
c.requires(*_NOT_RUNNING)
c.entry_requires = [_NOT_RUNNING]
c.assumed = ['entry precondition of the wrapper (the job is not running) is checked where its task is created and assumed '
             'stable until its first step: nothing of the coroutine runs in between (A-NO-EAGER) and nobody else writes '
             'this job\'s _running (rely of the wrapper)']


def _wrapped_rely(c):
    """what the other activations may have done during a suspension: they change only their own
    contribution to the queue (never below zero), and never this job's _running flag"""
    c.cur.g['$others'] = fresh('others', L.I)
    c.cur.g['$vt'] = fresh('vt', L.R)
    job = c.a.job
    return [c.cur.g['$others'] >= 0, c.cur.g['$vt'] >= c.before.g['$vt'],
            c.cur.f('_running', job) == c.before.f('_running', job)]


c.rely = _wrapped_rely
# guarantee: the only attribute this coroutine stores is job._running := True
c.store_guard = lambda c, field, obj, val: And(field == '_running', obj == c.a.job, val) \
    if field == '_running' else z3.BoolVal(False)

c.ensures('slot-given-back', lambda c: c.cur.g['$contrib'] == 0, props=['C07', 'C03', 'C06', 'C12'])
c.ensures('body-ran-exactly-once', lambda c: c.cur.g['$bodycalls'] == 1, props=['C02', 'C14'])
c.ensures('returns-what-the-body-returned', lambda c: c.result == c.cur.g['$body-value'], props=['C14'])
c.ensures('finished-implies-running', lambda c: c.cur.f('_running', c.a.job), props=['C14'])
# C05/C08/C09/C11: an abort cancels queued jobs too; it ends only if a cancelled wrapper neither keeps a slot
# nor asks for one it does not hold (which would block on the empty queue)
c.raises('CancelledError', 'slot-given-back', lambda c: c.cur.g['$contrib'] == 0,
         props=['C07', 'C03', 'C12', 'C05', 'C08', 'C09', 'C11'])
# C14: a body that returned or raised is never reported cancelled: once the body is over the wrapper does not
# suspend again (giving the slot back takes an item this activation put itself: Queue.get does not block)
c.raises('CancelledError', 'never-after-the-body-has-finished', lambda c: Not(c.cur.g['$body-finished']),
         props=['C14', 'C02', 'C06'])
c.raises('CancelledError', 'body-ran-at-most-once', lambda c: c.cur.g['$bodycalls'] <= 1, props=['C02'])
c.raises('CancelledError', 'not-running-if-cancelled-while-queued', lambda c: Implies(
    c.cur.g['$bodycalls'] == 0, c.cur.f('_running', c.a.job) == c.pre.f('_running', c.a.job)), props=['C14'])
c.raises('Exception', 'slot-given-back', lambda c: c.cur.g['$contrib'] == 0,
         props=['C07', 'C03', 'C06', 'C12'])
c.raises('Exception', 'body-ran-exactly-once', lambda c: c.cur.g['$bodycalls'] == 1, props=['C02'])
c.raises('Exception', 'raises-the-very-exception-of-the-body', lambda c: c.exc == c.cur.g['$body-exc'],
         props=['C14', 'C06', 'C04'])
c.raises('Exception', 'finished-implies-running', lambda c: c.cur.f('_running', c.a.job), props=['C14'])
