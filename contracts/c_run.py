"""
Contracts of the run-time functions of PureScheduler (properties C01-C14), DESIGN.md 6.0.
Part 1: helpers (_record_beginning, _remaining_timeout, _create_task, _tidy_tasks,
_tidy_tasks_exception, _feedback, co_shutdown).
"""
import ast
import z3
from pyvc import logic as L
from pyvc.contracts_api import contract, Ctx
from pyvc.logic import Ref, NONE, TRUE, FALSE, truthy, card, isa, fresh, V
from .spec import *
from .c_job import S_FINISHED, S_PENDING, S_CANCELLED, tstate, finished, state_consts_facts, task_of, done_pred
from .env_asyncio import vt, CLK, task_rely, clock_rely, not_pending

F = 'purescheduler.py'
TASK_RELY_FIELDS = ['_state', '_exception', '_result', '$finished_vt', '_running']


def std_rely(c):
    """R1 of DESIGN 4.4: tasks follow their life cycle, the clock does not go back"""
    c.cur.g['$vt'] = fresh('vt', L.R)
    return task_rely(c.before, c.cur) + clock_rely(c.before, c.cur)


def init_vt(st):
    st.g['$vt'] = fresh('vt', L.R)


# ---------------------------------------------------------------- _record_beginning / _remaining_timeout
c = contract('PureScheduler._record_beginning', F).param('self').param('timeout').returns('none')
c.for_props('C08', 'C13')
c.ghost_init = init_vt
c.requires('timeout-is-None-or-a-number', lambda c: Or(c.a.timeout == NONE, L.is_num(c.a.timeout)))
c.modifies('_expiration')
c.ensures('deadline-is-now-plus-timeout', lambda c: And(
    Implies(c.a.timeout == NONE, c.cur.f('_expiration', c.a.self) == NONE),
    Implies(c.a.timeout != NONE, And(L.is_num(c.cur.f('_expiration', c.a.self)),
                                     c.cur.f('_expiration', c.a.self) != NONE,
                                     L.numval(c.cur.f('_expiration', c.a.self)) ==
                                     vt(c.pre) + CLK + L.numval(c.a.timeout)))))
c.ensures('frame[_expiration]', lambda c: unchanged_field(c.pre, c.cur, '_expiration', lambda o: o == c.a.self))

c = contract('PureScheduler._remaining_timeout', F).param('self').returns('ref')
c.for_props('C08', 'C03')
c.ghost_init = init_vt
c.requires('deadline-is-None-or-a-number', lambda c: Or(c.pre.f('_expiration', c.a.self) == NONE,
                                                        L.is_num(c.pre.f('_expiration', c.a.self))))
c.ensures('remaining-is-deadline-minus-now', lambda c: And(
    Implies(c.pre.f('_expiration', c.a.self) == NONE, c.result == NONE),
    Implies(c.pre.f('_expiration', c.a.self) != NONE,
            And(c.result != NONE, L.is_num(c.result),
                L.numval(c.result) == L.numval(c.pre.f('_expiration', c.a.self)) - (vt(c.pre) + CLK)))))


# ---------------------------------------------------------------- _feedback (syntactic contract)
def _feedback_syntactic(info):
    """no suspension, no heap write: the body holds no await/yield, no attribute store, and calls only
    print, the watch printers and the pure accessors"""
    allowed = {'print', '$print', 'print_time', 'isinstance', 'print_elapsed', 'print_wall_clock', 'stats', 'format',
               'repr_id', 'repr_short', 'repr_main', 'repr_result', 'repr_requires'}
    problems = []
    for n in ast.walk(info.node):
        if isinstance(n, (ast.Await, ast.Yield, ast.YieldFrom)):
            problems.append('suspension point at line %d' % n.lineno)
        if isinstance(n, ast.Attribute) and isinstance(n.ctx, ast.Store):
            problems.append('attribute store at line %d' % n.lineno)
        if isinstance(n, ast.Call):
            name = n.func.attr if isinstance(n.func, ast.Attribute) else getattr(n.func, 'id', '?')
            if name not in allowed:
                problems.append('call of %s at line %d' % (name, n.lineno))
    return [('no-suspension-no-heap-write', not problems, '; '.join(problems))]


c = contract('PureScheduler._feedback', F).param('self').param('jobs', 'any').param('state', 'any') \
    .param('force', 'bool', False).returns('none')
c.for_props('C01', 'C05', 'C12')
c.syntactic = _feedback_syntactic
c.is_async = True


# ---------------------------------------------------------------- Window.run_job: returns the closure
def _run_job_syntactic(info):
    b = [s for s in info.node.body if not isinstance(s, ast.Pass)]
    ok = (len(b) == 2 and isinstance(b[0], ast.AsyncFunctionDef) and b[0].name == 'wrapped'
          and isinstance(b[1], ast.Return) and isinstance(b[1].value, ast.Name) and b[1].value.id == 'wrapped'
          and not b[0].args.args)
    return [('returns-the-nested-coroutine-function-wrapped', ok, 'body is not `async def wrapped(): ...; return wrapped`')]


c = contract('Window.run_job', 'window.py').param('self').param('job').returns('ref')
c.for_props('C07', 'C02')
c.syntactic = _run_job_syntactic
c.pure = lambda c: V('asyncfn', None, ('Window.run_job.<locals>.wrapped', {'self': c.a.self, 'job': c.a.job}))


# ---------------------------------------------------------------- _create_task
c = contract('PureScheduler._create_task', F).param('self').param('job').param('window').returns('ref')
c.for_props('C01', 'C02', 'C07', 'C14')
c.ghost_init = init_vt
c.requires('state-constants', lambda c: And(state_consts_facts()))
c.requires('job-and-window', lambda c: And(isa['AbstractJob'](c.a.job), isa['Window'](c.a.window)))
c.requires('job-not-running', lambda c: Not(c.pre.f('_running', c.a.job)))
c.modifies('$alive', '_state', '_exception', '_result', '$cancel_req', '$wjob', '$twin', '$sd_of', '$shut',
           '$created_vt', '_job', '_task')


def _ct_post(c):
    t = c.result
    pre, cur = c.pre, c.cur
    out = [Not(pre.alive(t)), cur.alive(t), isa['Task'](t), t != NONE,
           tstate(cur, t) == S_PENDING, cur.f('_exception', t) == NONE, Not(cur.f('$cancel_req', t)),
           cur.f('$created_vt', t) == vt(pre),
           cur.f('_job', t) == c.a.job, cur.f('_task', c.a.job) == t,
           cur.f('$wjob', t) == c.a.job, cur.f('$twin', t) == c.a.window,
           cur.H('$shut') == pre.H('$shut')]
    for f in ('_state', '_exception', '_result', '$cancel_req', '$created_vt', '_job', '$wjob', '$twin', '$sd_of'):
        out.append(unchanged_field(pre, cur, f, lambda o: o == t))
    out.append(unchanged_field(pre, cur, '_task', lambda o: o == c.a.job))
    o_ = q()
    out.append(ForAll([o_], Implies(And(Not(pre.alive(o_)), cur.alive(o_)), o_ == t), patterns=[cur.alive(o_)]))
    return And(out)


c.ensures('fresh-task-linked-both-ways-running-wrapped-of-the-job-in-the-window', _ct_post)


# ---------------------------------------------------------------- _tidy_tasks
def mine_task(jst, S, st, t):
    """t runs the body or the shutdown handler of a member of S (only S's activations create or cancel it)"""
    return Or(member(jst, S, st.f('$wjob', t)), member(jst, S, st.f('$sd_of', t)))


def local_sets_unchanged(old, new, S):
    """containers of S and of its direct members, and local (role-less) containers, keep their contents"""
    s = q()
    own = old.f('$setowner', s)
    role = old.f('$setrole', s)
    return ForAll([s], Implies(And(old.alive(s), Or(role == 0, own == S, member(old, S, own))),
                               And(new.elems(s) == old.elems(s), new.f('$setrole', s) == role,
                                   new.f('$setowner', s) == own)), patterns=[new.elems(s)])


def no_new_task_of(old, new, S):
    """no task running a body or a shutdown handler of a member of S has appeared"""
    t = q()
    return ForAll([t], Implies(And(Not(old.alive(t)), new.alive(t), isa['Task'](t)),
                               Not(mine_task(old, S, new, t))), patterns=[new.f('$wjob', t)])


def sched_frame(old, new, S):
    """what no activation of S changes behind its own back: the member set object and the ghost links of
    the tasks that already exist"""
    t = q()
    return And(new.f('jobs', S) == old.f('jobs', S),
               ForAll([t], Implies(old.alive(t), And(new.f('$wjob', t) == old.f('$wjob', t),
                                                     new.f('$sd_of', t) == old.f('$sd_of', t))),
                      patterns=[new.f('$wjob', t)]),
               ForAll([t], Implies(old.alive(t), new.f('$sd_of', t) == old.f('$sd_of', t)),
                      patterns=[new.f('$sd_of', t)]))


def all_tasks(st, S):
    x = q()
    return ForAll([x], Implies(Select(S, x), And(isa['Task'](x), st.alive(x), x != NONE)), patterns=[Select(S, x)])


def none_pending(st, S):
    x = q()
    return ForAll([x], Implies(Select(S, x), tstate(st, x) != S_PENDING), patterns=[Select(S, x)])


c = contract('PureScheduler._tidy_tasks', F).param('self').param('pending', 'set').returns('none')
c.for_props('C05', 'C08', 'C09', 'C11', 'C13')
c.is_async = True
c.ghost_init = init_vt
c.rely_fields = None      # set below: the rely of every activation of the scheduler (sched_rely)
c.requires('state-constants', lambda c: And(state_consts_facts()))
c.requires('self-is-scheduler', lambda c: is_sched(c.a.self))
c.requires('elements-are-tasks', lambda c: all_tasks(c.pre, c.pre.elems(c.a.pending)))
c.requires('elements-are-tasks-of-this-scheduler', lambda c: (lambda x: ForAll([x], Implies(
    c.pre.mem(c.a.pending, x), mine_task(c.pre, c.a.self, c.pre, x)), patterns=[c.pre.mem(c.a.pending, x)]))(q()))
c.requires('local-wait-set', lambda c: c.pre.f('$setrole', c.a.pending) == 0)
c.modifies('$cancel_req', '$cancel_vt', '$alive', '$elems')
c.store_guard = lambda c, field, obj, val: z3.BoolVal(False)
TIDY = c


def cancel_effect(c, st, x):
    """exact effect of Task.cancel() called on x at the entry instant of _tidy_tasks"""
    newly = And(tstate(c.pre, x) == S_PENDING, Not(c.pre.f('$cancel_req', x)))
    return And(st.f('$cancel_req', x) == Or(c.pre.f('$cancel_req', x), tstate(c.pre, x) == S_PENDING),
               st.f('$cancel_vt', x) == If(newly, vt(c.pre), c.pre.f('$cancel_vt', x)))


def _tidy_cancelled_all(c):
    """every element that was pending on entry has been asked to cancel, at the entry instant; the
    elements that were not pending are left alone"""
    x = q()
    P = c.pre.elems(c.a.pending)
    return ForAll([x], Implies(Select(P, x), cancel_effect(c, c.cur, x)), patterns=[c.cur.f('$cancel_req', x)])


def _tidy_export(c):
    if c.mode == 'assume':
        c.cur.g['$tidy'] = dict(pre=c.pre, post=c.cur.copy(), pending=c.a.pending)
    return none_pending(c.cur, c.pre.elems(c.a.pending))


c.ensures('no-element-left-pending', _tidy_export, props=['C11', 'C05', 'C08', 'C09'])
c.ensures('every-pending-element-cancelled-at-once', _tidy_cancelled_all, props=['C05', 'C08', 'C09'])
def _tidy_frame_cancel(c):
    """cancellation is requested for elements of the argument only"""
    x = q()
    P = c.pre.elems(c.a.pending)
    return And(ForAll([x], Implies(Not(Select(P, x)),
                                   And(c.cur.f('$cancel_req', x) == c.pre.f('$cancel_req', x),
                                       c.cur.f('$cancel_vt', x) == c.pre.f('$cancel_vt', x))),
                      patterns=[c.cur.f('$cancel_req', x)]),
               ForAll([x], Implies(c.pre.f('$cancel_req', x), c.cur.f('$cancel_req', x)),
                      patterns=[c.cur.f('$cancel_req', x)]))


def roles_unchanged(old, new):
    o = q()
    return ForAll([o], Implies(old.alive(o), And(new.f('$setrole', o) == old.f('$setrole', o),
                                                 new.f('$setowner', o) == old.f('$setowner', o))),
                  patterns=[new.f('$setrole', o)])


c.ensures('frame[elems]', lambda c: local_sets_unchanged(c.pre, c.cur, c.a.self))
c.ensures('frame[cancel]', _tidy_frame_cancel)
c.ensures('creates-no-task', lambda c: no_new_task_of(c.pre, c.cur, c.a.self))
c.ensures('scheduler-frame', lambda c: sched_frame(c.pre, c.cur, c.a.self))
c.raises('CancelledError', 'creates-no-task', lambda c: no_new_task_of(c.pre, c.cur, c.a.self))
c.raises('CancelledError', 'scheduler-frame', lambda c: sched_frame(c.pre, c.cur, c.a.self))
c.raises('CancelledError', 'frame[cancel]', _tidy_frame_cancel)
c.raises('CancelledError', 'no-element-left-pending', lambda c: none_pending(c.cur, c.pre.elems(c.a.pending)),
         props=['C11'])
c.raises('CancelledError', 'every-pending-element-cancelled-at-once', _tidy_cancelled_all, props=['C05', 'C08', 'C09'])
c.raises('CancelledError', 'frame[elems]', lambda c: local_sets_unchanged(c.pre, c.cur, c.a.self))


def _tidy_loop0(c):
    """for task in pending: task.cancel()"""
    x = q()
    P = c.iterset
    return [
        ('visited-cancelled', ForAll([x], Implies(Select(c.visited, x), cancel_effect(c, c.cur, x)),
                                     patterns=[c.cur.f('$cancel_req', x)])),
        ('clock-still', vt(c.cur) == vt(c.pre)),
        ('states-still', And(c.cur.H('_state') == c.pre.H('_state'))),
        ('never-withdrawn', ForAll([x], Implies(c.pre.f('$cancel_req', x), c.cur.f('$cancel_req', x)),
                                   patterns=[c.cur.f('$cancel_req', x)])),
        ('unvisited-untouched', ForAll([x], Implies(Not(Select(c.visited, x)), And(
            c.cur.f('$cancel_req', x) == c.pre.f('$cancel_req', x),
            c.cur.f('$cancel_vt', x) == c.pre.f('$cancel_vt', x))), patterns=[c.cur.f('$cancel_req', x)])),
    ]


def _tidy_loop1(c):
    """while True: try: await asyncio.wait(pending); break / except CancelledError: cancelled = exc"""
    x = q()
    P = c.pre.elems(c.a.pending)
    canc = c.cur.env['cancelled'].t
    return [
        ('all-cancel-requested', ForAll([x], Implies(Select(P, x), cancel_effect(c, c.cur, x)),
                                        patterns=[c.cur.f('$cancel_req', x)])),
        ('pending-set-unchanged', c.cur.elems(c.a.pending) == P),
        ('remembered-cancellation', Or(canc == NONE, isa['CancelledError'](canc))),
        ('frame[elems]', local_sets_unchanged(c.pre, c.cur, c.a.self)),
        ('frame[cancel]', _tidy_frame_cancel(c)),
        ('clock-monotone', vt(c.cur) >= vt(c.pre)),
        ('creates-no-task', no_new_task_of(c.pre, c.cur, c.a.self)),
        ('wait-set-still-local', And(c.cur.f('$setrole', c.a.pending) == 0, c.cur.alive(c.a.pending))),
        ('elements-still-tasks-of-this-scheduler', And(all_tasks(c.cur, P), ForAll([x], Implies(
            Select(P, x), mine_task(c.pre, c.a.self, c.cur, x)), patterns=[Select(P, x)]))),
        ('scheduler-frame', sched_frame(c.pre, c.cur, c.a.self)),
        ('roles-unchanged', roles_unchanged(c.pre, c.cur)),
    ]


def _cl(fn, labels, key):
    return [(lab, (lambda lab: lambda c: dict(c.memo(key, lambda: fn(c)))[lab])(lab)) for lab in labels]


c.loop(0, inv=_cl(_tidy_loop0, ['visited-cancelled', 'clock-still', 'states-still', 'never-withdrawn', 'unvisited-untouched'], 't0'))
c.loop(1, inv=_cl(_tidy_loop1, ['all-cancel-requested', 'pending-set-unchanged', 'remembered-cancellation',
                                'frame[elems]', 'frame[cancel]', 'clock-monotone', 'creates-no-task',
                                'wait-set-still-local', 'elements-still-tasks-of-this-scheduler',
                                'scheduler-frame', 'roles-unchanged'], 't1'))


# ---------------------------------------------------------------- _tidy_tasks_exception
c = contract('PureScheduler._tidy_tasks_exception', F).param('self').param('tasks', 'set').returns('none')
c.for_props('C05', 'C06', 'C11')
c.is_async = True
c.ghost_init = init_vt
c.rely_fields = None
c.requires('state-constants', lambda c: And(state_consts_facts()))
c.requires('self-is-scheduler', lambda c: is_sched(c.a.self))
c.requires('elements-are-tasks', lambda c: all_tasks(c.pre, c.pre.elems(c.a.tasks)))
c.requires('all-finished', lambda c: none_pending(c.pre, c.pre.elems(c.a.tasks)))
c.requires('local-set', lambda c: c.pre.f('$setrole', c.a.tasks) == 0)
c.modifies('$alive', '$elems', '$llen', '$lat', '$cancel_req', '$cancel_vt')
c.store_guard = lambda c, field, obj, val: z3.BoolVal(False)
TIDYX = c


def _tidyx_no_cancel(c):
    """it requests no cancellation that has an effect: requests on this scheduler's tasks are as before"""
    x = q()
    return ForAll([x], Implies(And(c.pre.alive(x), mine_task(c.pre, c.a.self, c.pre, x)),
                               And(c.cur.f('$cancel_req', x) == c.pre.f('$cancel_req', x),
                                   c.cur.f('$cancel_vt', x) == c.pre.f('$cancel_vt', x))),
                  patterns=[c.cur.f('$cancel_req', x)])


def _tidyx_zero(c):
    if c.mode == 'assume':
        c.cur.g['$tidyx'] = dict(pre=c.pre, post=c.cur.copy())
    return vt(c.cur) == vt(c.pre)


c.ensures('zero-time', _tidyx_zero, props=['C05', 'C06'])
c.ensures('no-cancellation-requested', _tidyx_no_cancel)
c.ensures('frame[elems]', lambda c: local_sets_unchanged(c.pre, c.cur, c.a.self))
c.ensures('creates-no-task', lambda c: no_new_task_of(c.pre, c.cur, c.a.self))
c.ensures('scheduler-frame', lambda c: sched_frame(c.pre, c.cur, c.a.self))
c.raises('CancelledError', 'creates-no-task', lambda c: no_new_task_of(c.pre, c.cur, c.a.self))
c.raises('CancelledError', 'scheduler-frame', lambda c: sched_frame(c.pre, c.cur, c.a.self))
c.raises('CancelledError', 'no-cancellation-requested', _tidyx_no_cancel)
c.raises('CancelledError', 'frame[elems]', lambda c: local_sets_unchanged(c.pre, c.cur, c.a.self))
_TIDYX_INV = [
    ('nothing-requested', lambda c: And(c.cur.H('$cancel_req') == c.pre.H('$cancel_req'),
                                        c.cur.H('$cancel_vt') == c.pre.H('$cancel_vt'))),
    ('states-still', lambda c: c.cur.H('_state') == c.pre.H('_state')),
    ('clock-still', lambda c: vt(c.cur) == vt(c.pre)),
]
c.loop(0, inv=_TIDYX_INV)      # for task in exception_tasks: task.cancel()
c.loop(1, inv=_TIDYX_INV)      # for task in exception_tasks: task.exception()

# ---------------------------------------------------------------- E9: co_shutdown of an atomic job (assumed)
c = contract('AbstractJob.co_shutdown', None, kind='env').param('self').returns('ref')
c.is_async = True
c.suspends = True
c.may_cancel = True
c.assumed = ['E9: co_shutdown() of an atomic job returns or raises; behaviour when it raises is documented as unspecified']


# ---------------------------------------------------------------- the rely of a scheduler activation
SCHED_RELY_FIELDS = ['_state', '_exception', '_result', '$finished_vt', '_running']
# everything a run of a scheduler may write (its own effects + those of the contracts it calls)
RUN_MODIFIES = ['_state', '_exception', '_result', '$finished_vt', '_running', '$cancel_req', '$cancel_vt',
                '$alive', '$shut', '$sd_of', '$wjob', '$twin', '$created_vt', '_job', '_task',
                '_did_shutdown', '_expiration', '_failed_critical', '_failed_timeout', '_sched_id', '$idnum', '_s_mark',
                '_s_successors', '$elems', '$setowner', '$setrole', '$llen', '$lat', 'queue', '$qmax',
                'jobs_window', '$ycount', '$ypos']


def sched_rely(c):
    """The rely of an activation (co_run, co_shutdown, _tidy_*) of scheduler S (DESIGN 4.4).

    Shared with the other coroutines, and therefore havoced at every suspension and constrained here:
      R1  the life cycle of the tasks (E3) and the clock;
      R2  `_running` of a job goes from False to True only (it is written by that job's `wrapped`).
    Everything else this activation reads -- its own attributes, those of its direct members, the
    containers they hold, its local containers, the ghost links of the tasks it created -- is its
    FOOTPRINT: by R3/R4 (the guarantee of every other activation, proved as `guarantee[store ..]`
    obligations, plus A-NO-TAMPER for job bodies) nobody else writes it.  State outside the footprint is
    never read by this activation's code or contracts, so it is modelled as unchanged (frame rule)."""
    b, a = c.before, c.cur
    a.g['$vt'] = fresh('vt', L.R)
    m = q()
    out = task_rely(b, a) + clock_rely(b, a)
    S = c.a.self
    mine = lambda m_: member(b, S, m_)
    # R2: for the direct members of S (the only jobs whose flag this activation reads)
    out.append(ForAll([m], Implies(And(mine(m), b.f('_running', m)), a.f('_running', m)), patterns=[a.f('_running', m)]))
    # R2b: `_running` of a job is written only by the `wrapped` coroutine its task runs: a member without a task
    # keeps its flag across a suspension
    out.append(ForAll([m], Implies(And(mine(m), b.f('_task', m) == NONE), a.f('_running', m) == b.f('_running', m)),
                      patterns=[a.f('_running', m)]))
    return out


for _c in (TIDY, TIDYX):
    _c.rely_fields = SCHED_RELY_FIELDS
    _c.rely = sched_rely


# ---------------------------------------------------------------- co_shutdown
def sd_tasks(c, st):
    """the shutdown tasks this activation launched: the elements of its local list `tasks`"""
    if 'tasks' not in st.env:
        return L.EMPTY
    from .c_graph import listset
    return listset(c, st, st.env['tasks'].t)


c = contract('PureScheduler.co_shutdown', F).param('self').returns('ref')
c.for_props('C13', 'C11')
c.is_async = True
c.ghost_init = init_vt
c.rely_fields = SCHED_RELY_FIELDS
c.rely = sched_rely
c.requires('state-constants', lambda c: And(state_consts_facts()))
c.requires('self-is-scheduler', lambda c: is_sched(c.a.self))
c.requires('shutdown_timeout-is-None-or-a-number', lambda c: Or(
    c.pre.f('shutdown_timeout', c.a.self) == NONE, L.is_num(c.pre.f('shutdown_timeout', c.a.self))))
c.modifies('_did_shutdown', '_expiration', '$alive', '$llen', '$lat', '$elems', '$cancel_req', '$cancel_vt',
           '_state', '_exception', '_result', '$wjob', '$twin', '$sd_of', '$shut', '$created_vt', '_job', '$setrole')
c.store_guard = lambda c, field, obj, val: And(obj == c.a.self, field in ('_did_shutdown', '_expiration')) \
    if field in ('_did_shutdown', '_expiration') else z3.BoolVal(False)


def _sd_once(c):
    S = c.a.self
    m = q()
    if c.mode == 'assume':
        c.cur.g['$sd'] = dict(pre=c.pre, post=c.cur.copy())
    return Implies(c.pre.f('_did_shutdown', S), And(
        c.result == TRUE,
        ForAll([m], Implies(member(c.pre, S, m), c.cur.f('$shut', m) == c.pre.f('$shut', m)),
               patterns=[c.cur.f('$shut', m)])))


def _sd_each_member_once(c):
    S = c.a.self
    m = q()
    return Implies(Not(c.pre.f('_did_shutdown', S)), And(
        c.cur.f('_did_shutdown', S),
        ForAll([m], Implies(member(c.pre, S, m), c.cur.f('$shut', m) == c.pre.f('$shut', m) + 1),
               patterns=[c.cur.f('$shut', m)])))


def _sd_clean(c):
    return none_pending(c.cur, sd_tasks(c, c.cur))


def _sd_result(c):
    """True iff no handler had to be cancelled"""
    T = sd_tasks(c, c.cur)
    t = q()
    any_cancelled = Exists([t], And(Select(T, t), c.cur.f('$cancel_req', t)))
    return Implies(Not(c.pre.f('_did_shutdown', c.a.self)),
                   And(Or(c.result == TRUE, c.result == FALSE), (c.result == TRUE) == Not(any_cancelled)))


def _sd_new_tasks(c):
    t = q()
    S = c.a.self
    return ForAll([t], Implies(And(Not(c.pre.alive(t)), c.cur.alive(t), isa['Task'](t)),
                               Not(member(c.pre, S, c.cur.f('$wjob', t)))), patterns=[c.cur.f('$wjob', t)])


def _sd_frame(c):
    """frame of co_shutdown relative to its rely: tasks that existed keep their life cycle and ghost links,
    body tasks of this scheduler are not cancelled, local and owned containers are untouched"""
    S = c.a.self
    pre, cur = c.pre, c.cur
    t = q()
    saved = cur.g.get('$vt')
    out = task_rely(pre, cur, only_alive=True) + [
        sched_frame(pre, cur, S),
        local_sets_unchanged(pre, cur, S),
        roles_unchanged(pre, cur),
        ForAll([t], Implies(And(pre.alive(t), member(pre, S, pre.f('$wjob', t))),
                            And(cur.f('$cancel_req', t) == pre.f('$cancel_req', t),
                                cur.f('$cancel_vt', t) == pre.f('$cancel_vt', t))),
               patterns=[cur.f('$cancel_req', t)]),
        ForAll([t], Implies(pre.alive(t), And(cur.f('_job', t) == pre.f('_job', t),
                                              cur.f('$twin', t) == pre.f('$twin', t))),
               patterns=[cur.f('_job', t)]),
        vt(cur) >= vt(pre),
    ]
    return And(out)


c.ensures('frame', _sd_frame)
c.raises('CancelledError', 'frame', _sd_frame)
c.ensures('new-tasks-run-no-member-body', _sd_new_tasks)
c.raises('CancelledError', 'new-tasks-run-no-member-body', _sd_new_tasks)
c.ensures('a-later-call-sends-nothing-and-returns-True', _sd_once, props=['C13'])
c.ensures('one-shutdown-task-per-member', _sd_each_member_once, props=['C13'])
c.ensures('no-shutdown-task-left-pending', _sd_clean, props=['C13', 'C11'])
c.ensures('result-is-True-iff-no-handler-was-cancelled', _sd_result, props=['C13'])
c.raises('CancelledError', 'no-shutdown-task-left-pending', _sd_clean, props=['C11'])
c.at_call = {'asyncio.wait': [('shutdown-wait-armed-with-shutdown_timeout', lambda c: And(
    (c.callargs['timeout'] == NONE) == (c.pre.f('shutdown_timeout', c.a.self) == NONE),
    Implies(c.callargs['timeout'] != NONE,
            L.numval(c.callargs['timeout']) == L.numval(c.pre.f('shutdown_timeout', c.a.self)))))]}
c.label_props['shutdown-wait-armed-with-shutdown_timeout'] = {'C13'}


def _sd_loop(c):
    """tasks = [create_task(job.co_shutdown()) for job in self.jobs]  (desugared)"""
    S = c.a.self
    m, t = q(2)
    i, k = fresh('i', L.I), fresh('i', L.I)
    tasks = c.var('tasks')
    n = c.cur.llen(tasks)
    at = lambda ix: c.cur.lat(tasks, ix)
    return [
        ('visited-members-have-one-more', ForAll([m], Implies(member(c.pre, S, m), c.cur.f('$shut', m) ==
                                                              c.pre.f('$shut', m) + If(Select(c.visited, m), 1, 0)),
                                                 patterns=[c.cur.f('$shut', m)])),
        ('list-holds-fresh-shutdown-tasks-of-visited-members', And(n >= 0, ForAll([i], Implies(
            And(0 <= i, i < n),
            And(isa['Task'](at(i)), Not(c.pre.alive(at(i))), c.cur.alive(at(i)), at(i) != NONE,
                Select(c.visited, c.cur.f('$sd_of', at(i))))), patterns=[at(i)]))),
        ('list-elements-distinct', ForAll([i, k], Implies(And(0 <= i, i < k, k < n), at(i) != at(k)),
                                          patterns=[z3.MultiPattern(at(i), at(k))])),
        ('no-cancellation-yet', ForAll([i], Implies(And(0 <= i, i < n), Not(c.cur.f('$cancel_req', at(i)))),
                                       patterns=[at(i)])),
        ('list-fresh', And(Not(c.pre.alive(tasks)), c.cur.alive(tasks))),
        ('did-shutdown-set', And(c.cur.f('_did_shutdown', S), Not(c.pre.f('_did_shutdown', S)))),
        ('jobs-unchanged', And(c.cur.f('jobs', S) == c.pre.f('jobs', S),
                               c.cur.elems(c.cur.f('jobs', S)) == c.pre.elems(c.pre.f('jobs', S)))),
        ('clock-still', vt(c.cur) == vt(c.pre)),
        ('new-tasks-run-no-member-body', ForAll([t], Implies(
            And(Not(c.pre.alive(t)), c.cur.alive(t), isa['Task'](t)), c.cur.f('$wjob', t) == NONE),
            patterns=[c.cur.f('$wjob', t)])),
        ('frame', _sd_frame(c)),
    ]


_SDL = ['visited-members-have-one-more', 'list-holds-fresh-shutdown-tasks-of-visited-members',
        'list-elements-distinct', 'no-cancellation-yet',
        'list-fresh', 'did-shutdown-set', 'jobs-unchanged', 'clock-still', 'new-tasks-run-no-member-body',
        'frame']
c.loop(0, inv=_cl(_sd_loop, _SDL, 'sdl'))


def _sd_post_hints(c):
    st = c.cur
    if 'pending' not in st.env or st.env['pending'].kind != 'set' or 'tasks' not in st.env:
        return []
    x = q()
    pend = st.env['pending'].t
    T = sd_tasks(c, st)
    return [
        L.Lemma('stragglers-are-launched-handlers',
                ForAll([x], Implies(st.mem(pend, x), Select(T, x)), patterns=[st.mem(pend, x)])),
        L.Lemma('stragglers-were-cancelled',
                ForAll([x], Implies(st.mem(pend, x), st.f('$cancel_req', x)), patterns=[st.mem(pend, x)])),
    ]


REG_sd = __import__('pyvc.contracts_api', fromlist=['REG']).REG.get('PureScheduler.co_shutdown')
REG_sd.post_hints = _sd_post_hints


# ---------------------------------------------------------------- _reset_tasks
c = contract('PureScheduler._reset_tasks', F).param('self').returns('none')
c.for_props('C02', 'C14')
c.requires('self-is-scheduler', lambda c: is_sched(c.a.self))
c.modifies('_task', '_running')
# every member is idle again: no task, and not running (is_running implies is_scheduled: C14)
c.ensures('members-have-no-task', lambda c: (lambda j: ForAll([j], Implies(
    member(c.pre, c.a.self, j), c.cur.f('_task', j) == NONE), patterns=[c.cur.f('_task', j)]))(q()))
c.ensures('members-are-not-running', lambda c: (lambda j: ForAll([j], Implies(
    member(c.pre, c.a.self, j), Not(c.cur.f('_running', j))), patterns=[c.cur.f('_running', j)]))(q()), props=['C14'])
c.ensures('frame[_task]', lambda c: unchanged_field(c.pre, c.cur, '_task', lambda o: member(c.pre, c.a.self, o)))
c.ensures('frame[_running]', lambda c: unchanged_field(c.pre, c.cur, '_running', lambda o: member(c.pre, c.a.self, o)))
c.loop(0, inv=[
    ('visited-have-no-task', lambda c: (lambda j: ForAll([j], Implies(
        Select(c.visited, j), And(c.cur.f('_task', j) == NONE, Not(c.cur.f('_running', j)))),
        patterns=[c.cur.f('_task', j)]))(q())),
    ('others-untouched', lambda c: And(unchanged_field(c.pre, c.cur, '_task', lambda o: Select(c.visited, o)),
                                      unchanged_field(c.pre, c.cur, '_running', lambda o: Select(c.visited, o)))),
])

# ---------------------------------------------------------------- _set_sched_ids (contract assumed for now)
c = contract('PureScheduler._set_sched_ids/frame-only', None, kind='env').param('self').param('start', 'int', 1) \
    .param('id_format', 'ref', None).returns('int')
c.assumed = ['ASSUMED-CONTRACT PureScheduler._set_sched_ids as used by co_run (its verified contract in c_ids.py needs the tree vocabulary co_run does not carry): writes only _sched_id/_s_mark (and the generator ghost) of the '
             'objects of the tree and does not raise on an acyclic closed tree (numbering is decided under C15/C20)']
c.modifies('_sched_id', '$idnum', '_s_mark', '$ycount', '$ypos')
