"""
Contracts of the graph functions of PureScheduler (properties C15, C17).
"""
import z3
from pyvc import logic as L
from pyvc.contracts_api import contract
from pyvc.logic import Ref, NONE, TRUE, FALSE, truthy, card, isa, fresh, V
from .spec import *

F = 'purescheduler.py'

# ------------------------------------------------------------------ _reset_marks
c = contract('PureScheduler._reset_marks', F).param('self').returns('none')
c.for_props('C15')
c.requires('self-is-scheduler', lambda c: is_sched(c.a.self))
c.modifies('_s_mark')
c.ensures('members-unmarked', lambda c: (lambda j: ForAll([j], Implies(
    member(c.pre, c.a.self, j), c.cur.f('_s_mark', j) == NONE),
    patterns=[c.cur.f('_s_mark', j)]))(q()))
c.ensures('frame[_s_mark]', lambda c: unchanged_field(
    c.pre, c.cur, '_s_mark', lambda o: member(c.pre, c.a.self, o)))
c.loop(0, inv=[
    ('visited-unmarked', lambda c: (lambda j: ForAll([j], Implies(
        Select(c.visited, j), c.cur.f('_s_mark', j) == NONE),
        patterns=[c.cur.f('_s_mark', j)]))(q())),
    ('others-untouched', lambda c: unchanged_field(
        c.pre, c.cur, '_s_mark', lambda o: Select(c.visited, o))),
])


# ------------------------------------------------------------------ _backlinks
# BL: for every member r, elems(r._s_successors) = {j in J | E(j, r)}
def BL(st, S, J_):
    r, j = q(2)
    return ForAll([r, j], Implies(Select(J_, r), SUCC(st, r, j) == And(Select(J_, j), E(st, j, r))),
                  patterns=[SUCC(st, r, j), z3.MultiPattern(E(st, j, r), Select(J_, r))])


c = contract('PureScheduler._backlinks', F).param('self').returns('none')
c.for_props('C17', 'C12', 'C01', 'C03')
c.requires('self-is-scheduler', lambda c: is_sched(c.a.self))
c.requires('closed', lambda c: closed(c.pre, c.a.self))
c.modifies('_s_successors', '$elems', '$alive', '$setowner', '$setrole')
c.ensures('BL', lambda c: BL(c.cur, c.a.self, J(c.pre, c.a.self)))
c.ensures('frame[_s_successors]', lambda c: unchanged_field(
    c.pre, c.cur, '_s_successors', lambda o: member(c.pre, c.a.self, o)))
c.ensures('frame[elems]', lambda c: old_sets_unchanged(c.pre, c.cur))
c.ensures('alive-mono', lambda c: alive_mono(c.pre, c.cur))
c.ensures('allocates-only-sets', lambda c: allocates_only(c.pre, c.cur, 'set'))
c.ensures('frame[roles]', lambda c: roles_frame(c.pre, c.cur))


def _bl_fresh(c, which):
    """members in `which` carry a successor set allocated by this call"""
    j = q()
    return ForAll([j], Implies(Select(which, j), Not(c.pre.alive(c.cur.f('_s_successors', j)))),
                  patterns=[c.cur.f('_s_successors', j)])


c.loop(0, inv=[
    ('visited-fresh-empty', lambda c: (lambda j, x: ForAll([j, x], Implies(
        Select(c.visited, j),
        And(Not(c.pre.alive(c.cur.f('_s_successors', j))), Not(SUCC(c.cur, j, x)))),
        patterns=[SUCC(c.cur, j, x)]))(*q(2))),
    ('visited-fresh', lambda c: _bl_fresh(c, c.visited)),
    ('others-untouched', lambda c: unchanged_field(
        c.pre, c.cur, '_s_successors', lambda o: Select(c.visited, o))),
    ('old-sets-unchanged', lambda c: old_sets_unchanged(c.pre, c.cur)),
    ('alive-mono', lambda c: alive_mono(c.pre, c.cur)),
    ('allocates-only-sets', lambda c: allocates_only(c.pre, c.cur, 'set')),
    ('frame[roles]', lambda c: roles_frame(c.pre, c.cur)),
])
# outer loop of the second phase: for job in self.jobs
c.loop(1, inv=[
    ('partial-BL', lambda c: (lambda r, j: ForAll([r, j], Implies(
        Select(c.iterset, r),
        SUCC(c.cur, r, j) == And(Select(c.visited, j), E(c.cur, j, r))),
        patterns=[SUCC(c.cur, r, j)]))(*q(2))),
    ('succ-field-stable', lambda c: c.cur.H('_s_successors') == c.loop_pre.H('_s_successors')),
    ('fresh', lambda c: _bl_fresh(c, c.iterset)),
    ('old-sets-unchanged', lambda c: old_sets_unchanged(c.pre, c.cur)),
    ('alive-mono', lambda c: alive_mono(c.pre, c.cur)),
    ('alive-stable', lambda c: c.cur.H('$alive') == c.loop_pre.H('$alive')),
])
# inner loop: for req in job.required
c.loop(2, inv=[
    ('partial-BL-inner', lambda c: (lambda r, j: ForAll([r, j], Implies(
        Select(c.outer[-1]['iterset'], r),
        SUCC(c.cur, r, j) == Or(And(Select(c.outer[-1]['visited'], j), E(c.cur, j, r)),
                                And(j == c.outer[-1]['elem'], Select(c.visited, r)))),
        patterns=[SUCC(c.cur, r, j)]))(*q(2))),
    ('succ-field-stable', lambda c: c.cur.H('_s_successors') == c.loop_pre.H('_s_successors')),
    ('fresh', lambda c: _bl_fresh(c, c.outer[-1]['iterset'])),
    ('old-sets-unchanged', lambda c: old_sets_unchanged(c.pre, c.cur)),
    ('alive-mono', lambda c: alive_mono(c.pre, c.cur)),
    ('alive-stable', lambda c: c.cur.H('$alive') == c.loop_pre.H('$alive')),
])


# ------------------------------------------------------------------ topological_order
# Generator verified as a procedure appending to the ghost ($ycount, $ypos, $ynum).
def _M(c):
    """marked members in the current state"""
    S = c.a.self
    return c.memo('M', lambda: c.setdef(
        lambda j: And(member(c.cur, S, j), truthy(c.cur.f('_s_mark', j))), 'M'))


def _U(c):
    return c.skolem('U', lambda: fresh('U', L.SetV))


def _w(c):
    return c.skolem('w', lambda: z3.Function(L.fresh_name('w'), Ref, Ref))


def _topo_common(c):
    S = c.a.self
    M = _M(c)
    j, r, k = q(3)
    mark = lambda o: c.cur.f('_s_mark', o)
    ypos = lambda o: c.cur.f('$ypos', o)
    nb = c.var('nb_marked')
    c.fact(L.card_facts(M))
    return [
        ('T0-marks-none-or-true', ForAll([j], Implies(member(c.cur, S, j),
                                                      Or(mark(j) == NONE, mark(j) == TRUE)),
                                         patterns=[mark(j)])),
        ('T1-count', And(nb == card(M), c.var('target_marked') == card(J(c.cur, S)),
                         c.cur.g['$ynum'] == nb, nb >= 0)),
        ('T2-pos-range', ForAll([j], Implies(Select(M, j), And(0 <= ypos(j), ypos(j) < nb)),
                                patterns=[ypos(j)])),
        ('T2-pos-injective', ForAll([j, k], Implies(And(Select(M, j), Select(M, k), j != k),
                                                    ypos(j) != ypos(k)),
                                    patterns=[z3.MultiPattern(ypos(j), ypos(k))])),
        ('T2-requirements-first', ForAll([j, r], Implies(And(Select(M, j), E(c.cur, j, r)),
                                                         And(Select(M, r), ypos(r) < ypos(j))),
                                         patterns=[z3.MultiPattern(Select(M, j), E(c.cur, j, r))])),
        ('T3-disjoint-from-self-supporting',
         Implies(self_supporting(c.pre, S, _U(c), _w(c)),
                 ForAll([j], Not(And(Select(M, j), Select(_U(c), j))), patterns=[Select(M, j)]))),
        ('T4-yielded-once', ForAll([j], c.cur.f('$ycount', j) ==
                                   c.pre.f('$ycount', j) + If(Select(M, j), 1, 0),
                                   patterns=[c.cur.f('$ycount', j)])),
        ('frame[_s_mark]', unchanged_field(c.pre, c.cur, '_s_mark', lambda o: member(c.pre, S, o))),
    ]


def _mk_inv(fn):
    """turn a function returning [(label, formula)] into per-label invariant clauses"""
    labels = ['T0-marks-none-or-true', 'T1-count', 'T2-pos-range', 'T2-pos-injective',
              'T2-requirements-first', 'T3-disjoint-from-self-supporting', 'T4-yielded-once',
              'frame[_s_mark]']
    out = []
    for lab in labels:
        out.append((lab, (lambda lab: lambda c: dict(c.memo('common', lambda: fn(c)))[lab])(lab)))
    return out


def _topo_hints(h, e):
    """lemma instances for the marking step: M' = M u {job}"""
    Mh, Me = _M(h), _M(e)
    facts = [L.Keq(Mh, Me)]
    if h.elem is not None:
        facts.append(L.K2ext(Mh, h.elem, Me))
    S = e.a.self
    facts.append(L.K3(Me, J(e.cur, S)))
    return facts


c = contract('PureScheduler.topological_order', F).param('self').returns('none')
c.for_props('C15', 'C20')
c.generator = True
c.requires('self-is-scheduler', lambda c: is_sched(c.a.self))
c.requires('closed', lambda c: closed(c.pre, c.a.self))
c.modifies('_s_mark', '$ycount', '$ypos')


def _Ucyc(c):
    S = c.a.self
    return c.memo('Ucyc', lambda: c.setdef(
        lambda j: And(member(c.cur, S, j), Not(Select(_M(c), j))), 'Ucyc'))


def _topo_post_hints(c):
    S = c.a.self
    M = _M(c)
    x0 = fresh('x0', Ref)
    return [L.K3(M, J(c.cur, S)), L.K4(M, J(c.cur, S)), L.ext_at(M, J(c.cur, S), x0),
            L.inst(_Ucyc(c), x0), L.inst(M, x0)] + L.card_facts(J(c.cur, S))


c.post_hints = _topo_post_hints
c.ensures('each-member-yielded-exactly-once', lambda c: (lambda j: ForAll([j],
          c.cur.f('$ycount', j) == c.pre.f('$ycount', j) + If(member(c.pre, c.a.self, j), 1, 0),
          patterns=[c.cur.f('$ycount', j)]))(q()), props=['C15'])
c.ensures('linear-extension', lambda c: linear_extension(
    c.cur, c.a.self, c.cur.H('$ypos'), card(J(c.cur, c.a.self))), props=['C15'])
def _topo_acyclic_post(c):
    S = c.a.self
    if c.mode == 'prove':
        return Not(self_supporting(c.pre, S, _U(c), _w(c)))
    # call site: the schematic postcondition (proved for arbitrary U, w) may be instantiated
    pre = c.pre
    c.cur.g['acyclic-schema'] = lambda U, w: Not(self_supporting(pre, S, U, w))
    return z3.BoolVal(True)


c.ensures('normal-exit-implies-acyclic', _topo_acyclic_post, props=['C15'])
c.ensures('frame[_s_mark]', lambda c: unchanged_field(
    c.pre, c.cur, '_s_mark', lambda o: member(c.pre, c.a.self, o)))


def _not_acyclic(c):
    """raises => the unmarked members form a non-empty self-supporting set"""
    S = c.a.self
    if c.mode == 'prove':
        U = _Ucyc(c)
    else:
        U = fresh('Ucyc', L.SetV)
    c.cur.g['cycle-witness'] = U
    return self_supporting(c.cur, S, U)


c.raises('Exception', 'raises-implies-not-acyclic', _not_acyclic, props=['C15'])
c.raises('Exception', 'frame[_s_mark]', lambda c: unchanged_field(
    c.pre, c.cur, '_s_mark', lambda o: member(c.pre, c.a.self, o)))

c.loop(0, inv=_mk_inv(_topo_common), hints=_topo_hints,
       variant=lambda c: c.var('target_marked') - c.var('nb_marked'))


def _topo_export(c):
    """what a consumer loop `for j in self.topological_order(): ...` may use (symexec.for_generator):
    the yielded set, the yield position, what the generator reads (must stay stable while it is
    suspended) and what it writes (unknown to the consumer while the iteration is in progress)."""
    S = c.a.self
    Jset = J(c.pre, S)
    jobs_ref = c.pre.f('jobs', S)
    ypos = c.cur.H('$ypos')

    def stable(a, b, marks=True):
        j = q()
        per = [b.f('required', j) == a.f('required', j),
               b.elems(a.f('required', j)) == a.elems(a.f('required', j))]
        if marks:
            per.append(b.f('_s_mark', j) == a.f('_s_mark', j))
        return And(b.f('jobs', S) == jobs_ref, a.f('jobs', S) == jobs_ref, b.elems(jobs_ref) == a.elems(jobs_ref),
                   ForAll([j], Implies(Select(Jset, j), And(per)),
                          patterns=[b.f('required', j)] + ([b.f('_s_mark', j)] if marks else [])))

    def forget(st):
        old = st.H('_s_mark')
        st.havoc('_s_mark')
        o = q()
        st.assume(ForAll([o], Implies(Not(Select(Jset, o)), Select(st.H('_s_mark'), o) == Select(old, o)),
                         patterns=[Select(st.H('_s_mark'), o)]))

    return dict(set=Jset, pos=lambda j: Select(ypos, j), stable=stable, forget=forget)


c.gen_export = _topo_export


def _topo_inner(c):
    S = c.a.self
    j, r = q(2)
    mark = lambda o: c.cur.f('_s_mark', o)
    nb0 = c.var('nb_marked', c.loop_pre)
    return [
        ('changed-means-progress', Implies(c.var('changed'), c.var('nb_marked') > nb0)),
        ('count-monotone', c.var('nb_marked') >= nb0),
        ('unchanged-means-stuck', Implies(Not(c.var('changed')), And(
            c.cur.H('_s_mark') == c.loop_pre.H('_s_mark'),
            ForAll([j], Implies(And(Select(c.visited, j), mark(j) == NONE),
                                Exists([r], And(E(c.cur, j, r), mark(r) == NONE))),
                   patterns=[Select(c.visited, j)])))),
    ]


def _inner_clause(lab):
    return lambda c: dict(c.memo('inner', lambda: _topo_inner(c)))[lab]


c.loop(1, inv=_mk_inv(_topo_common) + [(lab, _inner_clause(lab)) for lab in
                                       ('changed-means-progress', 'count-monotone',
                                        'unchanged-means-stuck')],
       hints=_topo_hints)
c.loop(2, inv=[
    ('flag-iff-some-visited-unmarked', lambda c: (lambda r: c.var('has_unmarked_requirements') ==
     Exists([r], And(Select(c.visited, r), c.cur.f('_s_mark', r) == NONE)))(q())),
])


# ------------------------------------------------------------------ check_cycles (PureScheduler)
def acyclic_schema(c, st, S):
    """`acyclic(S)` as a goal: no self-supporting U, for the function-level skolems U, w"""
    return Not(self_supporting(st, S, _U(c), _w(c)))


c = contract('PureScheduler.check_cycles', F).param('self').returns('bool')
c.for_props('C15')
c.requires('self-is-scheduler', lambda c: is_sched(c.a.self))
c.requires('closed', lambda c: closed(c.pre, c.a.self))
c.modifies('_s_mark', '$ycount', '$ypos')
def _cc_true(c):
    S = c.a.self
    if c.mode != 'prove':
        pre, res = c.pre, c.result
        c.cur.g['acyclic-schema'] = lambda U, w: Implies(res, Not(self_supporting(pre, S, U, w)))
        return z3.BoolVal(True)
    sch = c.cur.g.get('acyclic-schema')
    if sch is not None:
        c.fact(sch(_U(c), _w(c)))
    return Implies(c.result, acyclic_schema(c, c.pre, S))


c.ensures('true-implies-acyclic', _cc_true)
c.ensures('false-implies-cyclic', lambda c: Implies(
    Not(c.result), self_supporting(c.pre, c.a.self, c.cur.g.get('cycle-witness', fresh('Uc', L.SetV)))))
c.ensures('frame[_s_mark]', lambda c: unchanged_field(
    c.pre, c.cur, '_s_mark', lambda o: member(c.pre, c.a.self, o)))


# ------------------------------------------------------------------ Scheduler.check_cycles (nested)
# True  => every scheduler of the subtree (self included) is acyclic   (schema over (s, U, w))
# False => some scheduler of the subtree has a non-empty self-supporting set (witness from the path taken)
def _s0(c):
    return c.skolem('s0', lambda: fresh('s0', Ref))


def _sub(x, m):
    return Or(x == m, under(x, m))


c = contract('Scheduler.check_cycles', 'scheduler.py').param('self').returns('bool')
c.for_props('C15')
c.requires('tree', lambda c: wf_tree(c.pre, c.a.self))
c.requires('tree-axioms', lambda c: And(tree_axioms()))
c.requires('closed', lambda c: closed(c.pre, c.a.self))
c.requires('nested-closed', lambda c: (lambda s: ForAll([s], Implies(
    And(under(s, c.a.self), isa['PureScheduler'](s)), closed(c.pre, s)), patterns=[under(s, c.a.self)]))(q()))
c.modifies('_s_mark', '$ycount', '$ypos')
c.decreases = lambda c: height(c.a.self)


def _scc_true(c):
    S = c.a.self
    pre, res = c.pre, c.result
    if c.mode != 'prove':
        c.cur.g['tree-acyclic-schema'] = lambda s, U, w: Implies(
            And(res, _sub(s, S), is_sched(s)), Not(self_supporting(pre, s, U, w)))
        return z3.BoolVal(True)
    sch = c.cur.g.get('acyclic-schema')      # normal exit of self.topological_order()
    if sch is not None:
        c.fact(sch(_U(c), _w(c)))
    return Implies(And(res, _sub(_s0(c), S), is_sched(_s0(c))),
                   Not(self_supporting(pre, _s0(c), _U(c), _w(c))))


def _scc_false(c):
    S = c.a.self
    pre, res = c.pre, c.result
    if c.mode != 'prove':
        ws, wU = fresh('cyc_s', Ref), fresh('cyc_U', L.SetV)
        c.cur.g['tree-cycle-witness'] = (ws, wU)
        return Implies(Not(res), And(_sub(ws, S), is_sched(ws), self_supporting(pre, ws, wU)))
    w = c.cur.g.get('tree-cycle-witness')
    if w is None:
        w = (S, c.cur.g.get('cycle-witness', fresh('Uc', L.SetV)))
    return Implies(Not(res), And(_sub(w[0], S), is_sched(w[0]), self_supporting(pre, w[0], w[1])))


c.ensures('true-implies-every-level-acyclic', _scc_true)
c.ensures('false-implies-a-cycle-somewhere', _scc_false)
# (when the answer is False the marks of the part already visited are whatever the aborted traversal left)
c.ensures('frame[_s_mark]', lambda c: Implies(c.result, unchanged_field(
    c.pre, c.cur, '_s_mark', lambda o: under(o, c.a.self))))


def _scc_inv_nested(c):
    m = q()
    sch = c.cur.g.get('tree-acyclic-schema')      # the nested check_cycles() call of this iteration, if any
    if sch is not None:
        c.fact(sch(_s0(c), _U(c), _w(c)))
    return ForAll([m], Implies(And(Select(c.visited, m), isa['Scheduler'](m), _sub(_s0(c), m), is_sched(_s0(c))),
                               Not(self_supporting(c.pre, _s0(c), _U(c), _w(c)))),
                  patterns=[Select(c.visited, m)])


c.loop(0, inv=[
    ('visited-nested-schedulers-acyclic', _scc_inv_nested),
    ('frame[_s_mark]', lambda c: unchanged_field(c.pre, c.cur, '_s_mark', lambda o: under(o, c.a.self))),
])


# ------------------------------------------------------------------ entry_jobs / exit_jobs
def ycount_delta(c, pred):
    """forall x. ycount'[x] = ycount[x] + (1 if pred(x) else 0)"""
    x = q()
    return ForAll([x], c.cur.f('$ycount', x) == c.pre.f('$ycount', x) + If(pred(x), 1, 0),
                  patterns=[c.cur.f('$ycount', x)])


def no_requirement(st, j):
    r = q()
    return Not(Exists([r], E(st, j, r)))


c = contract('PureScheduler.entry_jobs', F).param('self').returns('none')
c.for_props('C17')
c.generator = True
c.requires('self-is-scheduler', lambda c: is_sched(c.a.self))
c.modifies('$ycount', '$ypos')
c.ensures('yields-exactly-the-members-without-requirement', lambda c: ycount_delta(
    c, lambda x: And(member(c.pre, c.a.self, x), no_requirement(c.pre, x))))
c.loop(0, inv=[
    ('visited-entries-yielded-once', lambda c: ycount_delta(
        c, lambda x: And(Select(c.visited, x), no_requirement(c.pre, x)))),
])


def is_exit(st, S, j, discard_forever):
    m = q()
    return And(member(st, S, j), Not(And(discard_forever, st.f('forever', j))),
               Not(Exists([m], And(member(st, S, m), E(st, m, j)))))


c = contract('PureScheduler.exit_jobs', F).param('self') \
    .param('discard_forever', 'kw:bool', True).param('compute_backlinks', 'kw:bool', True).returns('none')
c.for_props('C17')
c.generator = True
c.requires('self-is-scheduler', lambda c: is_sched(c.a.self))
c.requires('closed', lambda c: closed(c.pre, c.a.self))
c.requires('backlinks-current-unless-recomputed', lambda c: Or(
    c.a.compute_backlinks, BL(c.pre, c.a.self, J(c.pre, c.a.self))))
c.modifies('_s_successors', '$elems', '$alive', '$setowner', '$setrole', '$ycount', '$ypos')
c.ensures('yields-exactly-the-exit-members', lambda c: ycount_delta(
    c, lambda x: is_exit(c.pre, c.a.self, x, c.a.discard_forever)))
c.ensures('frame[elems]', lambda c: old_sets_unchanged(c.pre, c.cur))
c.ensures('BL', lambda c: BL(c.cur, c.a.self, J(c.pre, c.a.self)))
c.ensures('frame[_s_successors]', lambda c: unchanged_field(
    c.pre, c.cur, '_s_successors', lambda o: member(c.pre, c.a.self, o)))
c.loop(0, inv=[
    ('visited-exits-yielded-once', lambda c: ycount_delta(
        c, lambda x: And(Select(c.visited, x), is_exit(c.pre, c.a.self, x, c.a.discard_forever)))),
])


# ------------------------------------------------------------------ _neighbours and friends
def nb_field(c, attname_term=None):
    """the attribute selected by the `attname` argument, as a function st, o -> set ref"""
    t = c.a.attname if attname_term is None else attname_term
    return lambda st, o: If(t == L.str_const('required'), st.f('required', o), st.f('_s_successors', o))


_LISTSETS = {}


def listset(c, st, lst, upto=None):
    """the set of elements of list object lst (first `upto` positions), as a definitional set.
    Both directions are given: membership <=> some index holds it, and every index is a member."""
    key = (st.H('$lat').get_id(), st.H('$llen').get_id(), lst.get_id(), None if upto is None else upto.get_id())
    if key in _LISTSETS:
        A, axs = _LISTSETS[key]
        c.fact(axs)
        return A
    n = st.llen(lst) if upto is None else upto
    i, k = fresh('i', L.I), fresh('i', L.I)
    axs = []
    A = L.setdef(axs, lambda x: Exists([i], And(0 <= i, i < n, st.lat(lst, i) == x)), 'lset')
    axs.append(ForAll([k], Implies(And(0 <= k, k < n), Select(A, st.lat(lst, k))),
                      patterns=[st.lat(lst, k)]))
    _LISTSETS[key] = (A, axs)
    c.fact(axs)
    return A


def starts_has(st, starts, x, c=None):
    """x is one of the elements of the tuple `starts`"""
    if c is not None:
        return Select(listset(c, st, starts), x)
    i = fresh('i', L.I)
    return Exists([i], And(0 <= i, i < st.llen(starts), st.lat(starts, i) == x))


_NRS = {}


def NR(c, st=None, attname=None):
    """definitional relation  NR(s, n) <=> n is a member and n in getattr(s, attname)  in state st.
    (a named relation keeps `if attname == ...` out of the quantifier patterns)"""
    st = c.pre if st is None else st
    t = c.a.attname if attname is None else attname
    S = c.a.self
    key = tuple(x.get_id() for x in (st.H('$elems'), st.H('required'), st.H('_s_successors'),
                                     st.H('jobs'), t, S))
    if key not in _NRS:
        f = z3.Function(L.fresh_name('NR'), Ref, Ref, L.B)
        s, n = q(2)
        fld = If(t == L.str_const('required'), st.f('required', s), st.f('_s_successors', s))
        ax = ForAll([s, n], f(s, n) == And(member(st, S, n), st.mem(fld, n)), patterns=[f(s, n)])
        # reverse triggers, one per attribute
        ax_r = ForAll([s, n], Implies(And(t == L.str_const('required'), member(st, S, n), E(st, s, n)),
                                      f(s, n)), patterns=[E(st, s, n)])
        ax_s = ForAll([s, n], Implies(And(t == L.str_const('_s_successors'), member(st, S, n),
                                          SUCC(st, s, n)), f(s, n)), patterns=[SUCC(st, s, n)])
        _NRS[key] = (f, [ax, ax_r, ax_s])
    f, axs = _NRS[key]
    c.fact(axs)
    return f


def N_of(c, st, S, fld, src_pred):
    """{n in J(S) | exists s. src_pred(s) and n in fld(s)} as a predicate of n"""
    nr = NR(c, st)

    def pred(n):
        s = q()
        return Exists([s], And(src_pred(s), nr(s, n)))
    return pred


def attname_ok(c):
    return Or(c.a.attname == L.str_const('required'), c.a.attname == L.str_const('_s_successors'))


c = contract('PureScheduler._neighbours', F).param('self').param('attname', 'str') \
    .param('starts', 'varargs').returns('set')
c.for_props('C17', 'C18')
c.getattr_fields = ['required', '_s_successors']
c.requires('self-is-scheduler', lambda c: is_sched(c.a.self))
c.requires('attname-is-required-or-successors', attname_ok)
c.requires('starts-are-jobs', lambda c: (lambda i: ForAll([i], Implies(
    And(0 <= i, i < c.pre.llen(c.a.starts)),
    And(isa['AbstractJob'](c.pre.lat(c.a.starts, i)), c.pre.alive(c.pre.lat(c.a.starts, i)))),
    patterns=[c.pre.lat(c.a.starts, i)]))(fresh('i', L.I)))
c.modifies('$elems', '$alive', '$setrole')


def _nb_post(c):
    S = c.a.self
    fld = nb_field(c)
    pred = N_of(c, c.pre, S, fld, lambda s: starts_has(c.pre, c.a.starts, s, c))
    n = q()
    return ForAll([n], c.cur.mem(c.result, n) == pred(n), patterns=[c.cur.mem(c.result, n)])


c.ensures('result-is-the-image-within-members', _nb_post)
c.ensures('result-fresh', lambda c: And(Not(c.pre.alive(c.result)), c.cur.alive(c.result),
                                        isa['set'](c.result), c.cur.f('$setrole', c.result) == 0))
c.ensures('frame[roles]', lambda c: roles_frame(c.pre, c.cur))
c.ensures('frame[elems]', lambda c: old_sets_unchanged(c.pre, c.cur))


def _nb_outer(c):
    S = c.a.self
    fld = nb_field(c)
    nbs = c.var('neighbours')
    n, s = q(2)
    i = fresh('i', L.I)
    seen = lambda s_: Select(listset(c, c.pre, c.a.starts, c.index), s_)
    return [
        ('partial-image', ForAll([n], c.cur.mem(nbs, n) == N_of(c, c.pre, S, fld, seen)(n),
                                 patterns=[c.cur.mem(nbs, n)])),
        ('result-fresh', And(Not(c.pre.alive(nbs)), c.cur.alive(nbs), isa['set'](nbs), c.cur.f('$setrole', nbs) == 0)),
        ('frame[elems]', old_sets_unchanged(c.pre, c.cur)),
    ]


def _nb_inner(c):
    S = c.a.self
    fld = nb_field(c)
    nbs = c.var('neighbours')
    n = q()
    i = fresh('i', L.I)
    o = c.outer[-1]
    seen = lambda s_: Select(listset(c, c.pre, c.a.starts, o['index']), s_)
    return [
        ('partial-image-inner', ForAll([n], c.cur.mem(nbs, n) == Or(
            N_of(c, c.pre, S, fld, seen)(n), And(member(c.pre, S, n), Select(c.visited, n))),
            patterns=[c.cur.mem(nbs, n)])),
        ('result-fresh', And(Not(c.pre.alive(nbs)), c.cur.alive(nbs), isa['set'](nbs), c.cur.f('$setrole', nbs) == 0)),
        ('frame[elems]', old_sets_unchanged(c.pre, c.cur)),
    ]


def _clauses(fn, labels, key):
    return [(lab, (lambda lab: lambda c: dict(c.memo(key, lambda: fn(c)))[lab])(lab)) for lab in labels]


c.loop(0, inv=_clauses(_nb_outer, ['partial-image', 'result-fresh', 'frame[elems]'], 'nbo'))
c.loop(1, inv=_clauses(_nb_inner, ['partial-image-inner', 'result-fresh', 'frame[elems]'], 'nbi'))


def starts_are_jobs(c):
    i = fresh('i', L.I)
    return ForAll([i], Implies(And(0 <= i, i < c.pre.llen(c.a.starts)),
                               And(isa['AbstractJob'](c.pre.lat(c.a.starts, i)),
                                   c.pre.alive(c.pre.lat(c.a.starts, i)))),
                  patterns=[c.pre.lat(c.a.starts, i)])


def starts_are_members(c):
    i = fresh('i', L.I)
    return ForAll([i], Implies(And(0 <= i, i < c.pre.llen(c.a.starts)),
                               member(c.pre, c.a.self, c.pre.lat(c.a.starts, i))),
                  patterns=[c.pre.lat(c.a.starts, i)])


# ---- predecessors
c = contract('PureScheduler.predecessors', F).param('self').param('starts', 'varargs').returns('set')
c.for_props('C17')
c.requires('self-is-scheduler', lambda c: is_sched(c.a.self))
c.requires('starts-are-jobs', starts_are_jobs)
c.modifies('$elems', '$alive', '$setrole')
c.ensures('frame[roles]', lambda c: roles_frame(c.pre, c.cur))
c.ensures('exactly-the-members-directly-required-by-a-start', lambda c: (lambda n, s: ForAll([n],
          c.cur.mem(c.result, n) == And(member(c.pre, c.a.self, n),
                                        Exists([s], And(starts_has(c.pre, c.a.starts, s, c), E(c.pre, s, n)))),
          patterns=[c.cur.mem(c.result, n)]))(*q(2)))
c.ensures('result-fresh', lambda c: And(Not(c.pre.alive(c.result)), c.cur.alive(c.result),
                                        c.cur.f('$setrole', c.result) == 0))
c.ensures('frame[elems]', lambda c: old_sets_unchanged(c.pre, c.cur))

# ---- successors (generator)
c = contract('PureScheduler.successors', F).param('self').param('starts', 'varargs') \
    .param('compute_backlinks', 'kw:bool', True).returns('none')
c.for_props('C17')
c.generator = True
c.requires('self-is-scheduler', lambda c: is_sched(c.a.self))
c.requires('closed', lambda c: closed(c.pre, c.a.self))
c.requires('starts-are-jobs', starts_are_jobs)
c.requires('starts-are-members', starts_are_members)
c.requires('backlinks-current-unless-recomputed', lambda c: Or(
    c.a.compute_backlinks, BL(c.pre, c.a.self, J(c.pre, c.a.self))))
c.modifies('_s_successors', '$elems', '$alive', '$setowner', '$setrole', '$ycount', '$ypos')
c.ensures('yields-once-each-member-directly-requiring-a-start', lambda c: ycount_delta(
    c, lambda n: And(member(c.pre, c.a.self, n),
                     (lambda s: Exists([s], And(starts_has(c.pre, c.a.starts, s, c), E(c.pre, n, s))))(q()))))
c.ensures('frame[elems]', lambda c: old_sets_unchanged(c.pre, c.cur))


# ------------------------------------------------------------------ _neighbours_closure
def Nrel(c, s, n):
    """n is a neighbour of s through the selected attribute, within the members (entry state)"""
    return NR(c)(s, n)


def _C(c):
    return c.skolem('C', lambda: fresh('C', L.SetV))


def closed_under(c, X, from_starts=True):
    """N[starts] subset X and N[X] subset X"""
    s, n = q(2)
    SS = listset(c, c.pre, c.a.starts)
    a = ForAll([s, n], Implies(And(Select(SS, s), Nrel(c, s, n)), Select(X, n)),
               patterns=[z3.MultiPattern(Select(SS, s), Nrel(c, s, n))])
    b = ForAll([s, n], Implies(And(Select(X, s), Nrel(c, s, n)), Select(X, n)),
               patterns=[z3.MultiPattern(Select(X, s), Nrel(c, s, n))])
    return And(a, b) if from_starts else b


def _R(c):
    return c.cur.elems(c.var('closure'))


def _ncl_common(c):
    S = c.a.self
    R = _R(c)
    cl = c.var('closure')
    s, n = q(2)
    SS = listset(c, c.pre, c.a.starts)
    C = _C(c)
    c.fact(L.card_facts(R), L.K3(R, J(c.pre, S)))
    return [
        ('A1-image-of-starts-included', ForAll([s, n], Implies(And(Select(SS, s), Nrel(c, s, n)),
                                                                Select(R, n)),
         patterns=[z3.MultiPattern(Select(SS, s), Nrel(c, s, n))])),
        ('A2-within-every-closed-set', Implies(closed_under(c, C), L.subset(R, C))),
        ('A3-within-members', L.subset(R, J(c.pre, S))),
        ('A4-closure-fresh', And(Not(c.pre.alive(cl)), c.cur.alive(cl), isa['set'](cl), c.cur.f('$setrole', cl) == 0)),
        ('A5-frame[elems]', And(old_sets_unchanged(c.pre, c.cur), roles_frame(c.pre, c.cur))),
    ]


_NCL_COMMON = ['A1-image-of-starts-included', 'A2-within-every-closed-set', 'A3-within-members',
               'A4-closure-fresh', 'A5-frame[elems]']


def _ncl_loop1(c, Rc=None, Vouter=None):
    R = _R(c)
    Rc = c.iterset if Rc is None else Rc
    Vo = c.visited if Vouter is None else Vouter
    ch = c.var('changes')
    s, n = q(2)
    return [
        ('B1-grows', L.subset(Rc, R)),
        ('B2-no-change-means-visited-closed', And(ch >= 0, Implies(ch == 0, And(
            L.seteq(R, Rc),
            ForAll([s, n], Implies(And(Select(Vo, s), Nrel(c, s, n)), Select(R, n)),
                   patterns=[z3.MultiPattern(Select(Vo, s), Nrel(c, s, n))]))))),
        ('B3-change-means-larger', And(Implies(ch > 0, card(R) > card(Rc)), card(R) >= card(Rc))),
    ]


_NCL_L1 = ['B1-grows', 'B2-no-change-means-visited-closed', 'B3-change-means-larger']


def _ncl_loop2(c):
    o = c.outer[-1]
    R = _R(c)
    ch = c.var('changes')
    base = _ncl_loop1(c, Rc=o['iterset'], Vouter=o['visited'])
    return base + [
        ('B4-visited-neighbours-included', Implies(ch == 0, L.subset(c.visited, R))),
        ('B5-iterating-the-neighbours-of-start', (lambda n: ForAll([n], Select(c.iterset, n) ==
                                                  Nrel(c, o['elem'], n), patterns=[Select(c.iterset, n), Nrel(c, o['elem'], n)]))(q())),
    ]


def _ncl_hints(h, e):
    facts = []
    if h.elem is not None:
        facts.append(L.K2(_R(h), h.elem))
    facts += L.card_facts(_R(e)) + L.card_facts(_R(h))
    return facts


c = contract('PureScheduler._neighbours_closure', F).param('self').param('attname', 'str') \
    .param('starts', 'varargs').returns('set')
c.for_props('C17', 'C18')
c.requires('self-is-scheduler', lambda c: is_sched(c.a.self))
c.requires('attname-is-required-or-successors', attname_ok)
c.requires('starts-are-jobs', starts_are_jobs)
c.modifies('$elems', '$alive', '$llen', '$lat', '$setrole')


def _ncl_post_closed(c):
    R = c.cur.elems(c.result)
    return closed_under(c, R)


def _ncl_post_least(c):
    R = c.cur.elems(c.result)
    if c.mode == 'prove':
        return Implies(closed_under(c, _C(c)), L.subset(R, _C(c)))
    cc = c
    c.cur.g['closure-least-schema'] = lambda C: Implies(closed_under(cc, C), L.subset(R, C))
    return z3.BoolVal(True)


c.ensures('closed-under-neighbours-and-contains-image-of-starts', _ncl_post_closed)
c.ensures('least-such-set', _ncl_post_least)
c.ensures('within-members', lambda c: L.subset(c.cur.elems(c.result), J(c.pre, c.a.self)))
c.ensures('result-fresh', lambda c: And(Not(c.pre.alive(c.result)), c.cur.alive(c.result),
                                        isa['set'](c.result), c.cur.f('$setrole', c.result) == 0))
c.ensures('frame[roles]', lambda c: roles_frame(c.pre, c.cur))
c.ensures('frame[elems]', lambda c: old_sets_unchanged(c.pre, c.cur))
c.loop(0, inv=_clauses(_ncl_common, _NCL_COMMON, 'ncl'), hints=_ncl_hints,
       variant=lambda c: card(J(c.pre, c.a.self)) - card(_R(c)))
c.loop(1, inv=_clauses(_ncl_common, _NCL_COMMON, 'ncl') + _clauses(_ncl_loop1, _NCL_L1, 'ncl1'),
       hints=_ncl_hints)
c.loop(2, inv=_clauses(_ncl_common, _NCL_COMMON, 'ncl') +
       _clauses(_ncl_loop2, _NCL_L1 + ['B4-visited-neighbours-included',
                                       'B5-iterating-the-neighbours-of-start'], 'ncl2'),
       hints=_ncl_hints)


# ---- predecessors_upstream / successors_downstream: the closure under the right relation
def _closure_posts(c, attname_const, extra_requires=()):
    t = L.str_const(attname_const)

    def closed_post(cc):
        R = cc.cur.elems(cc.result)
        s, n = q(2)
        nr = NR(cc, cc.pre, t)
        SS = listset(cc, cc.pre, cc.a.starts)
        return And(ForAll([s, n], Implies(And(Select(SS, s), nr(s, n)), Select(R, n)),
                          patterns=[z3.MultiPattern(Select(SS, s), nr(s, n))]),
                   ForAll([s, n], Implies(And(Select(R, s), nr(s, n)), Select(R, n)),
                          patterns=[z3.MultiPattern(Select(R, s), nr(s, n))]))

    def least_post(cc):
        R = cc.cur.elems(cc.result)
        nr = NR(cc, cc.pre, t)
        SS = listset(cc, cc.pre, cc.a.starts)

        def closedC(C):
            s, n = q(2)
            return And(ForAll([s, n], Implies(And(Select(SS, s), nr(s, n)), Select(C, n)),
                              patterns=[z3.MultiPattern(Select(SS, s), nr(s, n))]),
                       ForAll([s, n], Implies(And(Select(C, s), nr(s, n)), Select(C, n)),
                              patterns=[z3.MultiPattern(Select(C, s), nr(s, n))]))
        if cc.mode == 'prove':
            C = _C(cc)
            sch = cc.cur.g.get('closure-least-schema')
            if sch is not None:
                cc.fact(sch(C))
            return Implies(closedC(C), L.subset(R, C))
        cc.cur.g['closure-least-schema'] = lambda C: Implies(closedC(C), L.subset(R, C))
        return z3.BoolVal(True)
    return closed_post, least_post


c = contract('PureScheduler.predecessors_upstream', F).param('self').param('starts', 'varargs').returns('set')
c.for_props('C17', 'C18')
c.requires('self-is-scheduler', lambda c: is_sched(c.a.self))
c.requires('starts-are-jobs', starts_are_jobs)
c.modifies('$elems', '$alive', '$llen', '$lat', '$setrole')
c.ensures('frame[roles]', lambda c: roles_frame(c.pre, c.cur))
_cp, _lp = _closure_posts(c, 'required')
def _cp_export(cc, _cp=_cp):
    if cc.mode == 'assume':
        cc.cur.g['$upstream'] = cc.result
    return _cp(cc)


c.ensures('closed-under-requirements-and-contains-those-of-the-starts', _cp_export)
c.ensures('least-such-set', _lp)
c.ensures('within-members', lambda c: L.subset(c.cur.elems(c.result), J(c.pre, c.a.self)))
c.ensures('result-fresh', lambda c: And(Not(c.pre.alive(c.result)), c.cur.alive(c.result), isa['set'](c.result),
                                        c.cur.f('$setrole', c.result) == 0))
c.ensures('frame[elems]', lambda c: old_sets_unchanged(c.pre, c.cur))

c = contract('PureScheduler.successors_downstream', F).param('self').param('starts', 'varargs') \
    .param('compute_backlinks', 'kw:bool', True).returns('set')
c.for_props('C17', 'C18')
c.requires('self-is-scheduler', lambda c: is_sched(c.a.self))
c.requires('closed', lambda c: closed(c.pre, c.a.self))
c.requires('starts-are-jobs', starts_are_jobs)
c.requires('starts-are-members', starts_are_members)
c.requires('backlinks-current-unless-recomputed', lambda c: Or(
    c.a.compute_backlinks, BL(c.pre, c.a.self, J(c.pre, c.a.self))))
c.modifies('_s_successors', '$elems', '$alive', '$setowner', '$setrole', '$llen', '$lat')


def _down_rel(cc):
    """the relation the statement speaks of: n is a member that directly requires s"""
    S = cc.a.self
    return lambda s, n: And(member(cc.pre, S, n), E(cc.pre, n, s))


def _down_closed(cc):
    if cc.mode == 'assume':
        cc.cur.g['$downstream'] = cc.result
    R = cc.cur.elems(cc.result)
    s, n = q(2)
    rel = _down_rel(cc)
    SS = listset(cc, cc.pre, cc.a.starts)
    return And(ForAll([s, n], Implies(And(Select(SS, s), rel(s, n)), Select(R, n)),
                      patterns=[z3.MultiPattern(Select(SS, s), E(cc.pre, n, s))]),
               ForAll([s, n], Implies(And(Select(R, s), rel(s, n)), Select(R, n)),
                      patterns=[z3.MultiPattern(Select(R, s), E(cc.pre, n, s))]))


def _down_least(cc):
    R = cc.cur.elems(cc.result)
    rel = _down_rel(cc)
    SS = listset(cc, cc.pre, cc.a.starts)
    S = cc.a.self

    def closedC(C):
        s, n = q(2)
        return And(ForAll([s, n], Implies(And(Select(SS, s), rel(s, n)), Select(C, n)),
                          patterns=[z3.MultiPattern(Select(SS, s), E(cc.pre, n, s))]),
                   ForAll([s, n], Implies(And(Select(C, s), rel(s, n)), Select(C, n)),
                          patterns=[z3.MultiPattern(Select(C, s), E(cc.pre, n, s))]))
    if cc.mode == 'prove':
        C0 = _C(cc)
        # the least-ness of the callee's result is used at  C0 /\ J  (members only)
        Cm = cc.setdef(lambda x: And(Select(C0, x), member(cc.pre, S, x)), 'CJ')
        sch = cc.cur.g.get('closure-least-schema')
        if sch is not None:
            cc.fact(sch(Cm))
        return Implies(closedC(C0), L.subset(R, C0))
    cc.cur.g['closure-least-schema'] = lambda C: Implies(closedC(C), L.subset(R, C))
    return z3.BoolVal(True)


c.ensures('closed-under-being-required-and-contains-the-dependants-of-the-starts', _down_closed)
c.ensures('least-such-set', _down_least)
c.ensures('within-members', lambda c: L.subset(c.cur.elems(c.result), J(c.pre, c.a.self)))
c.ensures('result-fresh', lambda c: And(Not(c.pre.alive(c.result)), c.cur.alive(c.result), isa['set'](c.result),
                                        c.cur.f('$setrole', c.result) == 0))
c.ensures('frame[roles]', lambda c: roles_frame_except_backlinks(c.pre, c.cur, c.a.self))
c.ensures('frame[elems]', lambda c: old_sets_unchanged(c.pre, c.cur))
c.ensures('BL', lambda c: BL(c.cur, c.a.self, J(c.pre, c.a.self)))
