"""
Contracts of the numbering functions (C15: ids increase along requirements; C20: tree-wide unique ids).

  PureScheduler._set_sched_ids   Scheduler._set_sched_id   AbstractJob._set_sched_id
  AbstractJob._job_count         Scheduler._job_count

Ghost: $idnum(o) is the integer last formatted into o._sched_id; it is updated mechanically at every
store `x._sched_id = <template>.format(<int>)` (logic.STORE_GHOST), not by the contracts.

Specification functions (definitions over the rigid tree vocabulary of spec.py):
  size(x)   number of nodes of the subtree of x (1 for an atomic job, 1 + tsum(x) for a scheduler)
  tsum(s)   sum of size(m) over the members m of scheduler s   = psum(J(s))
  psum(V)   sum of size(m) over the finite set V
Only the unfoldings below are given to the solver (each is an instance of the definition):
  psum(empty) = 0;  psum(V + {x}) = psum(V) + size(x) for x not in V;  size >= 1;  psum >= 0.
"""
import z3
from pyvc import logic as L
from pyvc.contracts_api import contract
from pyvc.logic import Ref, NONE, isa, fresh
from .spec import *

L.register_ghost('$idnum', z3.ArraySort(Ref, L.I))


def _idnum_on_store(st, obj, val):
    """ghost update at `obj._sched_id = val`"""
    t = getattr(val, 't', None)
    n = None
    if val.kind == 'str' and t is not None and z3.is_app(t) and t.decl().name() == 'FMT1':
        n = t.arg(1)
    if n is None:
        n = fresh('idnum_unknown', L.I)
    st.heap['$idnum'] = z3.Store(st.H('$idnum'), obj, n)


L.STORE_GHOST['_sched_id'] = ('$idnum', _idnum_on_store)

size = z3.Function('size', Ref, L.I)
tsum = z3.Function('tsum', Ref, L.I)
psum = z3.Function('psum', L.SetV, L.I)


def size_axioms():
    x = q()
    return [
        ForAll([x], And(size(x) >= 1, If(isa['PureScheduler'](x), size(x) == 1 + tsum(x), size(x) == 1)),
               patterns=[size(x)]),
        ForAll([x], tsum(x) >= 0, patterns=[tsum(x)]),
        ForAll([x], height(x) >= 0, patterns=[height(x)]),
        psum(L.EMPTY) == 0,
    ]


def psum_step(Vis, x):
    """instance of the definition of a finite sum"""
    return And(Implies(Not(Select(Vis, x)), psum(Store(Vis, x, True)) == psum(Vis) + size(x)), psum(Vis) >= 0)


def idn(st, o):
    return Select(st.H('$idnum'), o)


def sub(x, m):
    """x is m or lies below m"""
    return Or(x == m, under(x, m))


def ids_frame(pre, cur, inside):
    """_sched_id / $idnum unchanged outside `inside`"""
    o = q()
    return ForAll([o], Implies(Not(inside(o)), And(idn(cur, o) == idn(pre, o),
                                                    cur.f('_sched_id', o) == pre.f('_sched_id', o))),
                  patterns=[idn(cur, o), cur.f('_sched_id', o)])


def member_numbered(cur, m, start, end):
    """the subtree of m occupies [start, end): m itself is `start`, everything below is later, nested
    intervals, and ids are pairwise distinct inside the subtree"""
    x, y = q(2)
    return And(
        end == start + size(m),
        idn(cur, m) == start,
        ForAll([x], Implies(under(x, m), And(start < idn(cur, x), idn(cur, x) + size(x) <= end)),
               patterns=[under(x, m)]),
        ForAll([x, y], Implies(And(sub(x, m), sub(y, m), x != y), idn(cur, x) != idn(cur, y)),
               patterns=[z3.MultiPattern(idn(cur, x), idn(cur, y), under(x, m), under(y, m)),
                         z3.MultiPattern(idn(cur, x), under(y, m))]),
        ForAll([x, y], Implies(And(under(x, m), under(y, x)),
                               And(idn(cur, x) < idn(cur, y), idn(cur, y) + size(y) <= idn(cur, x) + size(x))),
               patterns=[z3.MultiPattern(under(x, m), under(y, x))]),
    )


F_JOB, F_PS, F_S = 'job.py', 'purescheduler.py', 'scheduler.py'

# ---------------------------------------------------------------- AbstractJob._set_sched_id
c = contract('AbstractJob._set_sched_id', F_JOB).param('self').param('start', 'int').param('id_format', 'str') \
    .returns('int')
c.for_props('C15', 'C20')
c.assumed = ['A-FMT: template.format(n) is a deterministic function FMT1(template, n) of its two arguments; that it is '
             'injective in n for the zero-padded templates "{:0wd}" (so that distinct numbers give distinct ids) is assumed',
             'ghost $idnum: the integer formatted into _sched_id, updated mechanically at every store of _sched_id']
c.requires('self-is-a-job', lambda c: And(isa['AbstractJob'](c.a.self), c.pre.alive(c.a.self)))
c.modifies('_sched_id', '$idnum')
c.ensures('next-index', lambda c: c.result == c.a.start + 1)
c.ensures('number', lambda c: idn(c.cur, c.a.self) == c.a.start)
c.ensures('id-is-the-formatted-number', lambda c: c.cur.f('_sched_id', c.a.self) ==
          L.box_str(L.FMT1(c.a.id_format, c.a.start)))
c.ensures('frame', lambda c: ids_frame(c.pre, c.cur, lambda o: o == c.a.self))

# ---------------------------------------------------------------- _job_count
c = contract('AbstractJob._job_count', F_JOB).param('self').returns('int')
c.for_props('C20')
c.ensures('one', lambda c: c.result == 1)


# ---------------------------------------------------------------- PureScheduler._set_sched_ids
def _tree_pre(c):
    S = c.a.self
    return And(wf_tree(c.pre, S), closed(c.pre, S))


def _nested_closed(c):
    """every scheduler below self is closed as well (admissible tree)"""
    s = q()
    return ForAll([s], Implies(And(under(s, c.a.self), isa['PureScheduler'](s)), closed(c.pre, s)),
                  patterns=[under(s, c.a.self)])


def _sum_pre(c):
    s = q()
    S = c.a.self
    return And(tsum(S) == psum(J(c.pre, S)),
               ForAll([s], Implies(And(under(s, S), isa['PureScheduler'](s)), tsum(s) == psum(J(c.pre, s))),
                      patterns=[tsum(s)]))


c = contract('PureScheduler._set_sched_ids', F_PS).param('self').param('start', 'int', 1) \
    .param('id_format', 'ref', None).returns('int')
c.for_props('C15', 'C20')
c.requires('tree', _tree_pre)
c.requires('nested-closed', _nested_closed)
c.requires('sizes-are-the-sums-over-the-member-sets', _sum_pre)
c.requires('format-is-none-or-a-string', lambda c: Or(c.a.id_format == NONE, L.is_str(c.a.id_format)))
c.modifies('_sched_id', '$idnum', '_s_mark', '$ycount', '$ypos')
# ranks of the four mutually recursive numbering/counting functions at a scheduler s:
#   _total_length 4h(s) < _job_count 4h(s)+1 < _set_sched_ids 4h(s)+2 < Scheduler._set_sched_id 4h(s)+3
c.decreases = lambda c: 4 * height(c.a.self) + 2
c.requires('tree-axioms', lambda c: And(tree_axioms()))
c.requires('size-definitions', lambda c: And(size_axioms()))


def _ids_post(c):
    S, s, r = c.a.self, c.a.start, c.result
    x, y, j, rq = q(4)
    cur = c.cur
    return [
        ('next-index', r == s + tsum(S)),
        ('all-in-range', ForAll([x], Implies(under(x, S), And(s <= idn(cur, x), idn(cur, x) + size(x) <= r)),
                                patterns=[under(x, S)])),
        ('nested-after-their-scheduler', ForAll([x, y], Implies(And(under(x, S), under(y, x)),
                                                                And(idn(cur, x) < idn(cur, y),
                                                                    idn(cur, y) + size(y) <= idn(cur, x) + size(x))),
                                                patterns=[z3.MultiPattern(under(x, S), under(y, x))])),
        ('tree-wide-unique', ForAll([x, y], Implies(And(under(x, S), under(y, S), x != y), idn(cur, x) != idn(cur, y)),
                                    patterns=[z3.MultiPattern(under(x, S), under(y, S))])),
        ('requirements-numbered-first', ForAll([j, rq], Implies(And(member(c.pre, S, j), E(c.pre, j, rq)),
                                                                idn(cur, rq) < idn(cur, j)),
                                               patterns=[z3.MultiPattern(member(c.pre, S, j), E(c.pre, j, rq))])),
        ('frame', ids_frame(c.pre, cur, lambda o: under(o, S))),
        ('frame[_s_mark]', unchanged_field(c.pre, cur, '_s_mark', lambda o: under(o, S))),
    ]


for _lab in ('next-index', 'all-in-range', 'nested-after-their-scheduler', 'tree-wide-unique',
             'requirements-numbered-first', 'frame', 'frame[_s_mark]'):
    c.ensures(_lab, (lambda lab: lambda c: dict(c.memo('ids-post', lambda: _ids_post(c)))[lab])(_lab))
c.raises('Exception', 'only-when-cyclic', lambda c: z3.BoolVal(True))


def _ids_inv(c):
    S, s = c.a.self, c.a.start
    Vis = c.visited
    i = c.var('i')
    cur = c.cur
    m, m2, x, y, rq, o = q(6)
    ypos = lambda j: Select(c.loop_pre.H('$ypos'), j)
    return [
        ('next-index', i == s + psum(Vis)),
        ('visited-in-range', ForAll([m], Implies(Select(Vis, m), And(s <= idn(cur, m), idn(cur, m) + size(m) <= i)),
                                    patterns=[Select(Vis, m)])),
        ('subtrees-inside', ForAll([m, x], Implies(And(Select(Vis, m), under(x, m)),
                                                   And(idn(cur, m) < idn(cur, x),
                                                       idn(cur, x) + size(x) <= idn(cur, m) + size(m))),
                                   patterns=[z3.MultiPattern(Select(Vis, m), under(x, m))])),
        ('nested-intervals', ForAll([m, x, y], Implies(And(Select(Vis, m), under(x, m), under(y, x)),
                                                       And(idn(cur, x) < idn(cur, y),
                                                           idn(cur, y) + size(y) <= idn(cur, x) + size(x))),
                                    patterns=[z3.MultiPattern(Select(Vis, m), under(x, m), under(y, x))])),
        ('visited-disjoint', ForAll([m, m2], Implies(And(Select(Vis, m), Select(Vis, m2), ypos(m) < ypos(m2)),
                                                     idn(cur, m) + size(m) <= idn(cur, m2)),
                                    patterns=[z3.MultiPattern(Select(Vis, m), Select(Vis, m2))])),
        ('unique-inside-each', ForAll([m, x, y], Implies(And(Select(Vis, m), sub(x, m), sub(y, m), x != y),
                                                         idn(cur, x) != idn(cur, y)),
                                      patterns=[z3.MultiPattern(Select(Vis, m), under(x, m), under(y, m)),
                                                z3.MultiPattern(Select(Vis, m), under(x, m), idn(cur, y))])),
        ('requirements-first', ForAll([m, rq], Implies(And(Select(Vis, m), E(c.pre, m, rq)),
                                                       And(Select(Vis, rq), idn(cur, rq) < idn(cur, m))),
                                      patterns=[z3.MultiPattern(Select(Vis, m), E(c.pre, m, rq))])),
        ('frame', ids_frame(c.pre, cur, lambda o: under(o, S))),
        ('frame[_s_mark]', unchanged_field(c.pre, cur, '_s_mark', lambda o: under(o, S))),
    ]


_INV_LABELS = ['next-index', 'visited-in-range', 'subtrees-inside', 'nested-intervals', 'visited-disjoint',
               'unique-inside-each', 'requirements-first', 'frame', 'frame[_s_mark]']


def _ids_hints(h, e):
    """instances of the definitions needed at one iteration"""
    facts = []
    if h.elem is not None:
        facts.append(psum_step(h.visited, h.elem))
    return facts


c.loop(0, inv=[(lab, (lambda lab: lambda c: dict(c.memo('ids-inv', lambda: _ids_inv(c)))[lab])(lab))
               for lab in _INV_LABELS],
       hints=_ids_hints)

# ---------------------------------------------------------------- Scheduler._set_sched_id
c = contract('Scheduler._set_sched_id', F_S).param('self').param('start', 'int').param('id_format', 'str') \
    .returns('int')
c.for_props('C15', 'C20')
c.requires('tree', _tree_pre)
c.requires('nested-closed', _nested_closed)
c.requires('sizes-are-the-sums-over-the-member-sets', _sum_pre)
c.requires('self-is-a-job', lambda c: And(isa['Scheduler'](c.a.self), c.pre.alive(c.a.self)))
c.modifies('_sched_id', '$idnum', '_s_mark', '$ycount', '$ypos')
c.decreases = lambda c: 4 * height(c.a.self) + 3
c.requires('tree-axioms', lambda c: And(tree_axioms()))
c.requires('size-definitions', lambda c: And(size_axioms()))
c.ensures('subtree-numbered', lambda c: member_numbered(c.cur, c.a.self, c.a.start, c.result))
c.ensures('frame', lambda c: ids_frame(c.pre, c.cur, lambda o: sub(o, c.a.self)))
c.ensures('frame[_s_mark]', lambda c: unchanged_field(c.pre, c.cur, '_s_mark', lambda o: under(o, c.a.self)))
c.raises('Exception', 'only-when-cyclic', lambda c: z3.BoolVal(True))

# ---------------------------------------------------------------- PureScheduler._total_length / Scheduler._job_count
# _total_length() = tsum(self): the number of nodes strictly below self; Scheduler._job_count() = size(self).
# `return sum(job._job_count() for job in self.jobs)` is verified in its mechanically desugared form
# ($sum = 0; for job in self.jobs: $sum = $sum + job._job_count(); return $sum   -- pyvc/extract._desugar_sum).
def _count_tree_pre(c):
    return wf_tree(c.pre, c.a.self)


c = contract('PureScheduler._total_length', F_PS).param('self').returns('int')
c.for_props('C20')
c.requires('tree', _count_tree_pre)
c.requires('sizes-are-the-sums-over-the-member-sets', _sum_pre)
c.requires('tree-axioms', lambda c: And(tree_axioms()))
c.requires('size-definitions', lambda c: And(size_axioms()))
c.decreases = lambda c: 4 * height(c.a.self)
c.ensures('number-of-nodes-below', lambda c: c.result == tsum(c.a.self))
c.loop(0, inv=[('partial-sum', lambda c: c.var('$sum') == psum(c.visited))], hints=_ids_hints)

c = contract('Scheduler._job_count', F_S).param('self').returns('int')
c.for_props('C20')
c.requires('tree', _count_tree_pre)
c.requires('sizes-are-the-sums-over-the-member-sets', _sum_pre)
c.requires('self-is-a-scheduler', lambda c: isa['Scheduler'](c.a.self))
c.requires('tree-axioms', lambda c: And(tree_axioms()))
c.requires('size-definitions', lambda c: And(size_axioms()))
c.decreases = lambda c: 4 * height(c.a.self) + 1
c.ensures('subtree-size', lambda c: c.result == size(c.a.self))

# ---------------------------------------------------------------- math.log (environment; cosmetic use only)
c = contract('math.log', None, kind='env').param('x', 'any').param('base', 'any', None).returns('real')
c.assumed = ['ENV math.log: returns some real and writes nothing (may raise ValueError for x <= 0: only used for the '
             'zero-padding width, after total > 9)']


# ================================================================ iterate_jobs (C17): every node of the tree once
def _visits(x, S, scan, self_too):
    """x is yielded by the traversal of scheduler S"""
    below = And(under(x, S), Or(scan, Not(isa['PureScheduler'](x))))
    return Or(And(x == S, scan), below) if self_too else below


def _ycount_delta(c, pred):
    x = q()
    return ForAll([x], c.cur.f('$ycount', x) == c.pre.f('$ycount', x) + If(pred(x), 1, 0),
                  patterns=[c.cur.f('$ycount', x)])


c = contract('AbstractJob._iterate_jobs', F_JOB).param('self').param('scan_schedulers', 'bool').returns('none')
c.for_props('C17')
c.generator = True
c.requires('self-is-an-atomic-job', lambda c: And(isa['AbstractJob'](c.a.self), Not(isa['PureScheduler'](c.a.self))))
c.modifies('$ycount', '$ypos')
c.ensures('yields-itself-once', lambda c: _ycount_delta(c, lambda x: x == c.a.self))


def _covered(Vis, x, S):
    """x is a visited member of S or lies below one"""
    return Or(Select(Vis, x), And(under(x, S), owner(x) != S, Select(Vis, topm(x, S))))


def _iter_inv(c):
    S, scan = c.a.self, c.a.scan_schedulers
    return _ycount_delta(c, lambda x: Or(And(x == S, scan),
                                          And(_covered(c.visited, x, S), Or(scan, Not(isa['PureScheduler'](x))))))


for _qn, _file in (('Scheduler._iterate_jobs', F_S), ('PureScheduler.iterate_jobs', F_PS)):
    c = contract(_qn, _file).param('self')
    if _qn.endswith('.iterate_jobs'):
        c.param('scan_schedulers', 'bool', False)
    else:
        c.param('scan_schedulers', 'bool')
    c.returns('none')
    c.for_props('C17')
    c.generator = True
    c.requires('tree', lambda c: wf_tree(c.pre, c.a.self))
    c.requires('tree-axioms', lambda c: And(tree_axioms()))
    c.requires('heights', lambda c: (lambda x: ForAll([x], height(x) >= 0, patterns=[height(x)]))(q()))
    c.modifies('$ycount', '$ypos')
    c.decreases = lambda c: height(c.a.self)
    c.ensures('every-node-of-the-tree-exactly-once', lambda c: _ycount_delta(
        c, lambda x: _visits(x, c.a.self, c.a.scan_schedulers, True)))
    c.loop(0, inv=[('visited-subtrees-yielded-once', _iter_inv)])


# ---------------------------------------------------------------- PureScheduler._middle_index (C20: anchor choice)
# `for _, job in zip(range(index+1), entries): pass` in _middle_entry_job/_middle_exit_job binds `job` only if
# index >= 0 (there is at least one entry at that point): that is all C20 needs of this function. Which of the
# entries is picked ("the middle one") is layout, not part of the property, and deliberately not in the contract:
# zip() tolerates an index past the end.
c = contract('PureScheduler._middle_index', F_PS).param('last', 'int').returns('int')
c.for_props('C20')
c.requires('at-least-one', lambda c: c.a.last >= 1)
c.ensures('non-negative', lambda c: c.result >= 0)
