"""
Contracts of the constructors (C19: `required=` and `scheduler=` of a job, the positional arguments of a
scheduler) -- AbstractJob.__init__, PureScheduler.__init__, Scheduler.__init__.
"""
import z3
from pyvc import logic as L
from pyvc.contracts_api import contract
from pyvc.logic import Ref, NONE, TRUE, FALSE, isa, fresh
from .spec import *
from .c_build import (leaves_fn, new_ARG, NO_ARG, argok, arg_closure, _seq_arg_struct, flatten_args_ok, define_off,
                      flat_spec, flat_view_lemmas)

FJ, FP, FSCH = 'job.py', 'purescheduler.py', 'scheduler.py'

JOB_FIELDS = ['forever', 'critical', 'label', 'required', '_task', '_running', '_s_mark', '_s_successors', '_sched_id',
              '$idnum']

# ---------------------------------------------------------------- AbstractJob.__init__
c = contract('AbstractJob.__init__', FJ).param('self') \
    .param('forever', 'kw:bool', False).param('critical', 'kw:bool', True).param('label', 'kw:ref', None) \
    .param('required', 'kw:ref', None).param('scheduler', 'kw:ref', None).returns('none')
c.for_props('C19')
c.ghost_params = {'ARG': (new_ARG, NO_ARG)}
c.ghost_pass = {'AbstractJob.requires': lambda cc: {'ARG': cc.ghost['ARG']}}
c.requires('self-is-a-job', lambda c: And(isa['AbstractJob'](c.a.self), c.pre.alive(c.a.self)))
c.requires('argument-structure-of-required', lambda c: _seq_arg_struct(c, ['required']))
c.requires('scheduler-is-None-or-a-scheduler', lambda c: Or(
    c.a.scheduler == NONE, And(is_sched(c.a.scheduler), c.pre.alive(c.a.scheduler))))
c.modifies(*(JOB_FIELDS + ['$elems', '$alive', '$llen', '$lat', '$setowner', '$setrole']))


def _aj_requirements(c):
    lv = leaves_fn(c, c.pre)
    x = q()
    me = c.a.self
    return And(Not(c.pre.alive(c.cur.f('required', me))),
               ForAll([x], E(c.cur, me, x) == And(Select(lv(c.a.required), x), x != me), patterns=[E(c.cur, me, x)]))


def _aj_others(c):
    """the requirement sets of the other jobs are what they were"""
    a, b = q(2)
    me = c.a.self
    return ForAll([a, b], Implies(And(isa['AbstractJob'](a), c.pre.alive(a), a != me), E(c.cur, a, b) == E(c.pre, a, b)),
                  patterns=[E(c.cur, a, b)])


def _aj_sched(c):
    S = c.a.scheduler
    y = q()
    return Implies(S != NONE, ForAll([y], member(c.cur, S, y) == Or(member(c.pre, S, y), y == c.a.self),
                                     patterns=[member(c.cur, S, y)]))


def _aj_state(c):
    me = c.a.self
    cur = c.cur
    return And(cur.f('forever', me) == c.a.forever, cur.f('critical', me) == c.a.critical, cur.f('label', me) == c.a.label,
               cur.f('_task', me) == NONE, Not(cur.f('_running', me)), cur.f('_s_mark', me) == NONE,
               cur.f('_sched_id', me) == NONE,
               Not(c.pre.alive(cur.f('_s_successors', me))), cur.elems(cur.f('_s_successors', me)) == L.EMPTY)


c.ensures('requires-exactly-the-leaves-of-required', _aj_requirements, props=['C19'])
c.ensures('other-jobs-keep-their-requirements', _aj_others, props=['C19'])
c.ensures('registered-in-the-scheduler', _aj_sched, props=['C19'])
c.ensures('idle-unmarked-unnumbered', _aj_state, props=['C19', 'C14'])
c.ensures('frame[elems]', lambda c: (lambda s: ForAll([s], Implies(
    And(c.pre.alive(s), Or(c.a.scheduler == NONE, s != c.pre.f('jobs', c.a.scheduler))), c.cur.elems(s) == c.pre.elems(s)),
    patterns=[c.cur.elems(s)]))(q()))
c.ensures('frame[lists]', lambda c: (lambda s: ForAll([s], Implies(c.pre.alive(s), And(
    c.cur.llen(s) == c.pre.llen(s), Select(c.cur.H('$lat'), s) == Select(c.pre.H('$lat'), s))),
    patterns=[c.cur.llen(s), Select(c.cur.H('$lat'), s)]))(q()))
c.ensures('frame[fields-of-other-objects]', lambda c: And([unchanged_field(c.pre, c.cur, f, lambda o: o == c.a.self)
                                                          for f in JOB_FIELDS if not f.startswith('$')]))
c.ensures('frame[roles]', lambda c: roles_frame(c.pre, c.cur))


# ---------------------------------------------------------------- PureScheduler.__init__
from .c_build import contributed

c = contract('PureScheduler.__init__', FP).param('self').param('jobs_or_sequences', 'varargs') \
    .param('jobs_window', 'kw:ref', None).param('timeout', 'kw:ref', None).param('shutdown_timeout', 'kw:ref', 1) \
    .param('watch', 'kw:ref', None).param('verbose', 'kw:bool', False).returns('none')
c.for_props('C19')
c.fieldmap = {}
c.requires('self-is-a-scheduler', lambda c: And(is_sched(c.a.self), c.pre.alive(c.a.self)))
c.requires('arguments-are-jobs-sequences-or-None', lambda c: flatten_args_ok(c.pre, c.a.jobs_or_sequences))
c.modifies('jobs', 'jobs_window', 'timeout', 'shutdown_timeout', 'watch', 'verbose', '_failed_critical', '_failed_timeout',
           '_expiration', '_did_shutdown', '$elems', '$alive', '$llen', '$lat', '$setowner', '$setrole')


def _ps_members(c):
    y = q()
    me = c.a.self
    return And(Not(c.pre.alive(c.cur.f('jobs', me))),
               ForAll([y], member(c.cur, me, y) == contributed(c.pre, c.a.jobs_or_sequences, y),
                      patterns=[member(c.cur, me, y)]))


def _ps_state(c):
    me, cur = c.a.self, c.cur
    return And(cur.f('jobs_window', me) == c.a.jobs_window, cur.f('timeout', me) == c.a.timeout,
               cur.f('shutdown_timeout', me) == c.a.shutdown_timeout, cur.f('watch', me) == c.a.watch,
               cur.f('verbose', me) == c.a.verbose, cur.f('_failed_critical', me) == FALSE,
               cur.f('_failed_timeout', me) == FALSE, cur.f('_expiration', me) == NONE, Not(cur.f('_did_shutdown', me)))


c.ensures('members-are-exactly-the-jobs-given', _ps_members, props=['C19'])
c.ensures('parameters-recorded-and-no-failure-yet', _ps_state, props=['C19', 'C04'])
c.ensures('frame[elems]', lambda c: old_sets_unchanged(c.pre, c.cur))
c.ensures('frame[lists]', lambda c: (lambda s: ForAll([s], Implies(c.pre.alive(s), And(
    c.cur.llen(s) == c.pre.llen(s), Select(c.cur.H('$lat'), s) == Select(c.pre.H('$lat'), s))),
    patterns=[c.cur.llen(s), Select(c.cur.H('$lat'), s)]))(q()))
PS_FIELDS = ['jobs', 'jobs_window', 'timeout', 'shutdown_timeout', 'watch', 'verbose', '_failed_critical', '_failed_timeout',
             '_expiration', '_did_shutdown']
c.ensures('frame[fields-of-other-objects]', lambda c: And([unchanged_field(c.pre, c.cur, f, lambda o: o == c.a.self)
                                                          for f in PS_FIELDS]))
c.ensures('frame[roles]', lambda c: roles_frame(c.pre, c.cur))
c.post_hints = lambda c: flat_view_lemmas(c, c.cur) if c.mode == 'prove' else []


# ---------------------------------------------------------------- Scheduler.__init__
# (self, *jobs_or_sequences, jobs_window, timeout, shutdown_timeout, watch, verbose, **kwds): the positional and
# scheduler keywords go to PureScheduler.__init__, **kwds to AbstractJob.__init__
KW = [('forever', 'bool'), ('critical', 'bool'), ('label', 'ref'), ('required', 'ref'), ('scheduler', 'ref')]
KWDEF = {'forever': z3.BoolVal(False), 'critical': z3.BoolVal(True), 'label': NONE, 'required': NONE, 'scheduler': NONE}


def _kw(c, key):
    """value the job constructor receives for `key`"""
    return If(getattr(c.a, 'kwds__has_' + key), getattr(c.a, 'kwds__' + key), KWDEF[key])


c = contract('Scheduler.__init__', FSCH).param('self').param('jobs_or_sequences', 'varargs') \
    .param('jobs_window', 'kw:ref', None).param('timeout', 'kw:ref', None).param('shutdown_timeout', 'kw:ref', 1) \
    .param('watch', 'kw:ref', None).param('verbose', 'kw:bool', False).param('kwds', 'kwargs').returns('none')
c.kwargs_keys = {'kwds': KW}
c.for_props('C19')
c.ghost_params = {'ARG': (new_ARG, NO_ARG)}
c.ghost_pass = {'AbstractJob.__init__': lambda cc: {'ARG': cc.ghost['ARG']}}
c.requires('self-is-a-nestable-scheduler', lambda c: And(isa['Scheduler'](c.a.self), c.pre.alive(c.a.self)))
c.requires('arguments-are-jobs-sequences-or-None', lambda c: flatten_args_ok(c.pre, c.a.jobs_or_sequences))
c.requires('argument-structure-of-required', lambda c: And(arg_closure(c.pre, c.ghost['ARG']),
                                                            argok(c.pre, _kw(c, 'required'), c.ghost['ARG'])))
c.requires('scheduler-is-None-or-a-scheduler', lambda c: Or(
    _kw(c, 'scheduler') == NONE, And(is_sched(_kw(c, 'scheduler')), c.pre.alive(_kw(c, 'scheduler')),
                                     _kw(c, 'scheduler') != c.a.self)))
c.modifies(*(JOB_FIELDS + ['jobs', 'jobs_window', 'timeout', 'shutdown_timeout', 'watch', 'verbose', '_failed_critical',
                           '_failed_timeout', '_expiration', '_did_shutdown', '$elems', '$alive', '$llen', '$lat',
                           '$setowner', '$setrole']))


def _sch_members(c):
    y = q()
    me = c.a.self
    return ForAll([y], member(c.cur, me, y) == contributed(c.pre, c.a.jobs_or_sequences, y),
                  patterns=[member(c.cur, me, y)])


def _sch_requirements(c):
    lv = leaves_fn(c, c.pre)
    x = q()
    me = c.a.self
    return ForAll([x], E(c.cur, me, x) == And(Select(lv(_kw(c, 'required')), x), x != me), patterns=[E(c.cur, me, x)])


def _sch_registered(c):
    S = _kw(c, 'scheduler')
    y = q()
    return Implies(S != NONE, ForAll([y], member(c.cur, S, y) == Or(member(c.pre, S, y), y == c.a.self),
                                     patterns=[member(c.cur, S, y)]))


def _sch_flags(c):
    me, cur = c.a.self, c.cur
    return And(cur.f('forever', me) == _kw(c, 'forever'), cur.f('critical', me) == _kw(c, 'critical'),
               cur.f('label', me) == _kw(c, 'label'), cur.f('jobs_window', me) == c.a.jobs_window,
               cur.f('timeout', me) == c.a.timeout, cur.f('_task', me) == NONE, Not(cur.f('_running', me)))


c.ensures('members-are-exactly-the-jobs-given', _sch_members, props=['C19'])
c.ensures('requires-exactly-the-leaves-of-required', _sch_requirements, props=['C19'])
c.ensures('registered-in-the-scheduler', _sch_registered, props=['C19'])
c.ensures('flags-and-parameters-recorded', _sch_flags, props=['C19'])


# ---------------------------------------------------------------- Job.co_run / Job.co_shutdown (C14)
# A coroutine-based Job awaits the coroutine object it was given.  `$await` is the environment contract of that
# await (E9 again: the user's coroutine returns some object or raises some exception, and writes nothing of the tree).
c = contract('$await', None, kind='env').param('obj').returns('ref')
c.is_async = True
c.suspends = True
c.may_cancel = True
c.raise_fresh = False
c.assumed = ['E9 (await of a user coroutine object): it returns any object or raises any exception; CancelledError only '
             'if cancelled; it writes no attribute of a job or scheduler of the tree']


def _aw_post(c):
    c.cur.g['$awaited-value'] = c.result
    return z3.BoolVal(True)


def _aw_raise(c):
    c.cur.g['$awaited-exc'] = c.exc
    return z3.BoolVal(True)


c.ensures('returns-some-object', _aw_post)
c.raises('Exception', 'raises-some-exception', _aw_raise)

c = contract('Job.co_run', FJ).param('self').returns('ref')
c.for_props('C14')
c.is_async = True
c.rely = lambda c: []
c.rely_fields = []
c.requires('self-is-a-job', lambda c: isa['Job'](c.a.self))
c.ensures('returns-what-its-coroutine-returned', lambda c: c.result == c.cur.g['$awaited-value'], props=['C14'])
c.raises('Exception', 'raises-what-its-coroutine-raised', lambda c: c.exc == c.cur.g['$awaited-exc'], props=['C14'])
c.raises('CancelledError', 'when-cancelled-while-awaiting', lambda c: z3.BoolVal(True))
c.store_guard = lambda c, field, obj, val: z3.BoolVal(False)      # it writes nothing

c = contract('Job.co_shutdown', FJ).param('self').returns('ref')
c.for_props('C13')
c.is_async = True
c.rely = lambda c: []
c.rely_fields = []
c.requires('self-is-a-job', lambda c: isa['Job'](c.a.self))
c.ensures('returns-what-its-handler-returned-or-None', lambda c: Or(
    c.result == NONE, c.result == c.cur.g.get('$awaited-value', NONE)), props=['C13'])
c.raises('Exception', 'raises-what-its-handler-raised', lambda c: c.exc == c.cur.g['$awaited-exc'])
c.raises('CancelledError', 'when-cancelled-while-awaiting', lambda c: z3.BoolVal(True))
c.store_guard = lambda c, field, obj, val: z3.BoolVal(False)
