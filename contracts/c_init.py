"""
Contracts of the constructors (C19: `required=` and `scheduler=` of a job, the positional arguments of a
scheduler) -- AbstractJob.__init__, PureScheduler.__init__, Scheduler.__init__.
"""
import z3
from pyvc import logic as L
from pyvc.contracts_api import contract
from pyvc.logic import Ref, NONE, TRUE, FALSE, isa, fresh
from .spec import *
from .c_build import (leaves_fn, new_ARG, NO_ARG, argok, arg_closure, _seq_arg_struct, flatten_args_ok, define_off,
                      flat_spec, flat_view_lemmas)

FJ, FP, FSCH = 'job.py', 'purescheduler.py', 'scheduler.py'

JOB_FIELDS = ['forever', 'critical', 'label', 'required', '_task', '_running', '_s_mark', '_s_successors', '_sched_id',
              '$idnum']

# ---------------------------------------------------------------- AbstractJob.__init__
c = contract('AbstractJob.__init__', FJ).param('self') \
    .param('forever', 'kw:bool', False).param('critical', 'kw:bool', True).param('label', 'kw:ref', None) \
    .param('required', 'kw:ref', None).param('scheduler', 'kw:ref', None).returns('none')
c.for_props('C19')
c.ghost_params = {'ARG': (new_ARG, NO_ARG)}
c.ghost_pass = {'AbstractJob.requires': lambda cc: {'ARG': cc.ghost['ARG']}}
c.requires('self-is-a-job', lambda c: And(isa['AbstractJob'](c.a.self), c.pre.alive(c.a.self)))
c.requires('argument-structure-of-required', lambda c: _seq_arg_struct(c, ['required']))
c.requires('scheduler-is-None-or-a-scheduler', lambda c: Or(
    c.a.scheduler == NONE, And(is_sched(c.a.scheduler), c.pre.alive(c.a.scheduler))))
c.modifies(*(JOB_FIELDS + ['$elems', '$alive', '$llen', '$lat', '$setowner', '$setrole']))


def _aj_requirements(c):
    lv = leaves_fn(c, c.pre)
    x = q()
    me = c.a.self
    return And(Not(c.pre.alive(c.cur.f('required', me))),
               ForAll([x], E(c.cur, me, x) == And(Select(lv(c.a.required), x), x != me), patterns=[E(c.cur, me, x)]))


def _aj_others(c):
    """the requirement sets of the other jobs are what they were"""
    a, b = q(2)
    me = c.a.self
    return ForAll([a, b], Implies(And(isa['AbstractJob'](a), c.pre.alive(a), a != me), E(c.cur, a, b) == E(c.pre, a, b)),
                  patterns=[E(c.cur, a, b)])


def _aj_sched(c):
    S = c.a.scheduler
    y = q()
    return Implies(S != NONE, ForAll([y], member(c.cur, S, y) == Or(member(c.pre, S, y), y == c.a.self),
                                     patterns=[member(c.cur, S, y)]))


def _aj_state(c):
    me = c.a.self
    cur = c.cur
    return And(cur.f('forever', me) == c.a.forever, cur.f('critical', me) == c.a.critical, cur.f('label', me) == c.a.label,
               cur.f('_task', me) == NONE, Not(cur.f('_running', me)), cur.f('_s_mark', me) == NONE,
               cur.f('_sched_id', me) == NONE,
               Not(c.pre.alive(cur.f('_s_successors', me))), cur.elems(cur.f('_s_successors', me)) == L.EMPTY)


c.ensures('requires-exactly-the-leaves-of-required', _aj_requirements, props=['C19'])
c.ensures('other-jobs-keep-their-requirements', _aj_others, props=['C19'])
c.ensures('registered-in-the-scheduler', _aj_sched, props=['C19'])
c.ensures('idle-unmarked-unnumbered', _aj_state, props=['C19', 'C14'])


# ---------------------------------------------------------------- PureScheduler.__init__
from .c_build import contributed

c = contract('PureScheduler.__init__', FP).param('self').param('jobs_or_sequences', 'varargs') \
    .param('jobs_window', 'kw:ref', None).param('timeout', 'kw:ref', None).param('shutdown_timeout', 'kw:ref', 1) \
    .param('watch', 'kw:ref', None).param('verbose', 'kw:bool', False).returns('none')
c.for_props('C19')
c.fieldmap = {}
c.requires('self-is-a-scheduler', lambda c: And(is_sched(c.a.self), c.pre.alive(c.a.self)))
c.requires('arguments-are-jobs-sequences-or-None', lambda c: flatten_args_ok(c.pre, c.a.jobs_or_sequences))
c.modifies('jobs', 'jobs_window', 'timeout', 'shutdown_timeout', 'watch', 'verbose', '_failed_critical', '_failed_timeout',
           '_expiration', '_did_shutdown', '$elems', '$alive', '$llen', '$lat', '$setowner', '$setrole')


def _ps_members(c):
    y = q()
    me = c.a.self
    return And(Not(c.pre.alive(c.cur.f('jobs', me))),
               ForAll([y], member(c.cur, me, y) == contributed(c.pre, c.a.jobs_or_sequences, y),
                      patterns=[member(c.cur, me, y)]))


def _ps_state(c):
    me, cur = c.a.self, c.cur
    return And(cur.f('jobs_window', me) == c.a.jobs_window, cur.f('timeout', me) == c.a.timeout,
               cur.f('shutdown_timeout', me) == c.a.shutdown_timeout, cur.f('watch', me) == c.a.watch,
               cur.f('verbose', me) == c.a.verbose, cur.f('_failed_critical', me) == FALSE,
               cur.f('_failed_timeout', me) == FALSE, cur.f('_expiration', me) == NONE, Not(cur.f('_did_shutdown', me)))


c.ensures('members-are-exactly-the-jobs-given', _ps_members, props=['C19'])
c.ensures('parameters-recorded-and-no-failure-yet', _ps_state, props=['C19', 'C04'])
c.ensures('frame[elems]', lambda c: old_sets_unchanged(c.pre, c.cur))
c.post_hints = lambda c: flat_view_lemmas(c, c.cur) if c.mode == 'prove' else []
