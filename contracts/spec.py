"""
Specification vocabulary shared by all contracts (DESIGN.md section 5).
Everything here is specification: it never replaces code.
"""
import z3
from pyvc import logic as L
from pyvc.logic import Ref, NONE, TRUE, FALSE, truthy, card, isa, fresh

And, Or, Not, Implies, ForAll, Exists, If, Select, Store = (
    z3.And, z3.Or, z3.Not, z3.Implies, L.FA, z3.Exists, z3.If, z3.Select, z3.Store)


def J(st, S):
    """member set of scheduler S, as a set value"""
    return st.elems(st.f('jobs', S))


def member(st, S, j):
    return st.mem(st.f('jobs', S), j)


def E(st, j, r):
    """j requires r"""
    return st.mem(st.f('required', j), r)


def SUCC(st, r, j):
    """j is recorded as a successor of r"""
    return st.mem(st.f('_s_successors', r), j)


def q(n=1, prefix='q'):
    vs = [fresh(prefix, Ref) for _ in range(n)]
    return vs[0] if n == 1 else vs


def closed(st, S):
    j, r = q(2)
    return ForAll([j, r], Implies(And(member(st, S, j), E(st, j, r)), member(st, S, r)),
                  patterns=[z3.MultiPattern(member(st, S, j), E(st, j, r))])


def is_sched(S):
    return isa['PureScheduler'](S)


def unchanged_field(old, new, field, except_pred=None):
    """forall o. not except(o) => new.field[o] == old.field[o]"""
    o = q()
    body = new.f(field, o) == old.f(field, o)
    if except_pred is not None:
        body = Implies(Not(except_pred(o)), body)
    return ForAll([o], body, patterns=[new.f(field, o)])


def unchanged_elems(old, new, except_pred=None):
    """contents of every set object outside except_pred are unchanged"""
    s = q()
    body = new.elems(s) == old.elems(s)
    if except_pred is not None:
        body = Implies(Not(except_pred(s)), body)
    return ForAll([s], body, patterns=[new.elems(s)])


def alive_mono(old, new):
    o = q()
    return ForAll([o], Implies(old.alive(o), new.alive(o)), patterns=[new.alive(o)])


def old_sets_unchanged(old, new, except_pred=None):
    """contents of every set object that was alive before are unchanged (fresh ones are free)"""
    s = q()
    cond = old.alive(s)
    if except_pred is not None:
        cond = And(cond, Not(except_pred(s)))
    return ForAll([s], Implies(cond, new.elems(s) == old.elems(s)), patterns=[new.elems(s)])


# ---------------------------------------------------------------- acyclicity (DESIGN 5.2)
_SS_CACHE = {}


def self_supporting(st, S, U, wit=None):
    """U is a non-empty subset of J(S) in which every element requires an element of U"""
    if wit is None:
        key = (st.H('$elems').get_id(), st.H('jobs').get_id(), st.H('required').get_id(), S.get_id(), U.get_id())
        if key not in _SS_CACHE:
            _SS_CACHE[key] = _self_supporting(st, S, U, None)
        return _SS_CACHE[key]
    if isinstance(wit, z3.FuncDeclRef):
        # same formula object for the same (heap, S, U, w): instances then match syntactically
        key = (st.H('$elems').get_id(), st.H('jobs').get_id(), st.H('required').get_id(), S.get_id(), U.get_id(),
               wit.get_id())
        if key not in _SS_CACHE:
            _SS_CACHE[key] = _self_supporting(st, S, U, wit)
        return _SS_CACHE[key]
    return _self_supporting(st, S, U, wit)


def _self_supporting(st, S, U, wit=None):
    u, r = q(2)
    nonempty = Exists([u], Select(U, u))
    sub = ForAll([u], Implies(Select(U, u), member(st, S, u)), patterns=[Select(U, u)])
    if wit is None:
        sup = ForAll([u], Implies(Select(U, u), Exists([r], And(Select(U, r), E(st, u, r)))),
                     patterns=[Select(U, u)])
    else:
        sup = ForAll([u], Implies(Select(U, u), And(Select(U, wit(u)), E(st, u, wit(u)))),
                     patterns=[Select(U, u)])
    return And(nonempty, sub, sup)


def acyclic_at(st, S, U):
    """instance of acyclic(S) at the candidate set U: U is not self-supporting"""
    return Not(self_supporting(st, S, U))


def linear_extension(st, S, pos, n):
    """pos is injective on J(S) into [0, n) and every requirement comes earlier"""
    j, r = q(2)
    a = ForAll([j], Implies(member(st, S, j), And(0 <= Select(pos, j), Select(pos, j) < n)),
               patterns=[Select(pos, j)])
    b = ForAll([j, r], Implies(And(member(st, S, j), member(st, S, r), j != r),
                               Select(pos, j) != Select(pos, r)),
               patterns=[z3.MultiPattern(Select(pos, j), Select(pos, r))])
    c = ForAll([j, r], Implies(And(member(st, S, j), E(st, j, r)), Select(pos, r) < Select(pos, j)),
               patterns=[z3.MultiPattern(member(st, S, j), E(st, j, r))])
    return And(a, b, c)


# ---------------------------------------------------------------- scheduler tree (DESIGN 5.1)
# Rigid ghost functions describing the tree a function is called on.  They are used only by
# contracts of functions that do not change membership (the `jobs` sets are in their frame).
owner = z3.Function('owner', Ref, Ref)            # the scheduler a job belongs to (None for a root)
height = z3.Function('height', Ref, z3.IntSort())  # height of the subtree (well-founded recursion)
under = z3.Function('under', Ref, Ref, z3.BoolSort())   # x is somewhere below scheduler S
topm = z3.Function('topm', Ref, Ref, Ref)               # the member of S whose subtree holds x


def tree_axioms():
    """Facts about owner/under/height that hold in every finite forest (L5: lemmas/Tree.lean).
    `under` is the transitive closure of `owner(x) = S`; the solver gets both unfoldings and the
    consequences it cannot derive without induction."""
    x, s, a, b = q(4)
    ax = []
    ax.append(ForAll([x], Not(under(x, NONE)), patterns=[under(x, NONE)]))
    ax.append(ForAll([x, s], Implies(under(x, s), And(s != NONE, isa['PureScheduler'](s), owner(x) != NONE,
                                                      Or(owner(x) == s, under(owner(x), s)),
                                                      height(x) < height(s), height(x) >= 0)),
                     patterns=[under(x, s)]))
    ax.append(ForAll([x], Implies(owner(x) != NONE, And(under(x, owner(x)), isa['PureScheduler'](owner(x)))),
                     patterns=[owner(x)]))
    # transitivity (one step up is enough for the proofs here)
    ax.append(ForAll([x, s], Implies(And(under(x, s), owner(s) != NONE), under(x, owner(s))),
                     patterns=[z3.MultiPattern(under(x, s), owner(s))]))
    ax.append(ForAll([x, a, s], Implies(And(under(x, a), under(a, s)), under(x, s)),
                     patterns=[z3.MultiPattern(under(x, a), under(a, s))]))
    # L5: the subtrees of two distinct members of one scheduler are disjoint, and exclude the members
    ax.append(ForAll([x, a, b], Implies(And(under(x, a), under(x, b), a != b),
                                        Or(under(a, b), under(b, a))),
                     patterns=[z3.MultiPattern(under(x, a), under(x, b))]))
    ax.append(ForAll([x], Not(under(x, x)), patterns=[under(x, x)]))
    # second unfolding (from the top): x below S is a member of S or lies below a member of S
    ax.append(ForAll([x, s], Implies(under(x, s), Or(owner(x) == s,
                                                     And(owner(topm(x, s)) == s, under(x, topm(x, s))))),
                     patterns=[under(x, s)]))
    return ax


def wf_tree(st, S):
    """membership in every scheduler of the tree rooted at S is exactly `owner`"""
    s, j = q(2)
    return And(
        is_sched(S),
        ForAll([j], member(st, S, j) == (owner(j) == S), patterns=[member(st, S, j), owner(j)]),
        ForAll([s, j], Implies(And(under(s, S), isa['PureScheduler'](s)),
                               member(st, s, j) == (owner(j) == s)),
               patterns=[member(st, s, j)]),
        ForAll([j], Implies(owner(j) == S, And(isa['AbstractJob'](j), st.alive(j))), patterns=[owner(j)]),
        ForAll([j], Implies(under(j, S), And(isa['AbstractJob'](j), st.alive(j))), patterns=[under(j, S)]),
    )


def in_tree(x, S):
    return under(x, S)


def allocates_only(old, new, *classes):
    """every object allocated between the two states is an instance of one of the given classes
    (in particular: no asyncio.Task unless 'Task' is listed)"""
    o = q()
    return ForAll([o], Implies(And(Not(old.alive(o)), new.alive(o)), Or([isa[k](o) for k in classes])),
                  patterns=[new.alive(o)])


def roles_frame(old, new):
    """container roles/owners of the objects that existed are unchanged"""
    o = q()
    return ForAll([o], Implies(old.alive(o), And(new.f('$setrole', o) == old.f('$setrole', o),
                                                 new.f('$setowner', o) == old.f('$setowner', o))),
                  patterns=[new.f('$setrole', o)])


def roles_frame_except_backlinks(old, new, S):
    return roles_frame(old, new)
