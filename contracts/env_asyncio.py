"""
Environment contracts E1-E9 (DESIGN.md 4.3): the documented behaviour of the asyncio primitives the
package awaits, and of the bodies of atomic jobs.  These are ASSUMED (kind='env'), listed in every
evidence file, and probed against the running interpreter by replay/probe_env.py.
"""
import z3
from pyvc import logic as L
from pyvc.contracts_api import contract
from pyvc.logic import Ref, NONE, TRUE, FALSE, truthy, isa, fresh, V
from .spec import *
from .c_job import S_FINISHED, S_PENDING, S_CANCELLED, tstate, finished, state_consts_facts

L.register_ghost('$cancel_req', z3.ArraySort(Ref, L.B))     # Task.cancel() was called on it
L.register_ghost('$cancel_vt', z3.ArraySort(Ref, L.R))      # virtual time of that call
L.register_ghost('$creator', z3.ArraySort(Ref, Ref))        # the scheduler whose _create_task made the task
L.register_ghost('$created_vt', z3.ArraySort(Ref, L.R))
L.register_ghost('$finished_vt', z3.ArraySort(Ref, L.R))
L.register_ghost('$twin', z3.ArraySort(Ref, Ref))           # window of the wrapped coroutine the task runs
L.register_ghost('$sd_of', z3.ArraySort(Ref, Ref))          # shutdown task -> the job whose co_shutdown it runs

TASK_FIELDS = ['_state', '_exception', '_result']


def vt(st):
    """ghost virtual clock of the state"""
    if '$vt' not in st.g:
        st.g['$vt'] = fresh('vt', L.R)
    return st.g['$vt']


def not_pending(st, t):
    return tstate(st, t) != S_PENDING


def task_wf(st):
    """E3/A-PRIVATE, state invariants of asyncio tasks: the state is one of the three; an exception is held
    only by a finished task.  Assumed of every state (the package never writes these attributes; the only
    "writer" is the environment), re-proved where a contract havocs the attributes (fresh tasks of E2)."""
    t = L.fresh('t', Ref)
    return [
        ('E3-task-state-domain', L.FA([t], Or(tstate(st, t) == S_PENDING, tstate(st, t) == S_FINISHED,
                                              tstate(st, t) == S_CANCELLED), patterns=[tstate(st, t)]),
         {'_state'}),
        ('E3-exception-only-if-finished', L.FA([t], Implies(truthy(st.f('_exception', t)),
                                                            tstate(st, t) == S_FINISHED),
                                               patterns=[st.f('_exception', t)]), {'_state', '_exception'}),
        ('state-constants', And(state_consts_facts()), {'_state'}),
        # A-EXC: what a finished task holds as its exception is an Exception instance (not a bare BaseException)
        ('E3-exception-objects', L.FA([t], Or(st.f('_exception', t) == NONE,
                                              And(isa['Exception'](st.f('_exception', t)), st.alive(st.f('_exception', t)))),
                                      patterns=[st.f('_exception', t)]), {'_exception', '$alive'}),
    ]


from pyvc import wf as _WF
_WF.EXTRA_CLAUSES.append(task_wf)


def task_rely(before, after, only_alive=False):
    """E3: task life cycle across a suspension (only_alive: restricted to the objects that existed before,
    for spans during which this activation itself allocates tasks)"""
    t = q()
    if only_alive:
        g = lambda cond: And(before.alive(t), cond)
    else:
        g = lambda cond: cond
    return [
        ForAll([t], Implies(g(tstate(before, t) != S_PENDING),
                            And(tstate(after, t) == tstate(before, t),
                                after.f('_exception', t) == before.f('_exception', t),
                                after.f('_result', t) == before.f('_result', t),
                                after.f('$finished_vt', t) == before.f('$finished_vt', t))),
               patterns=[tstate(after, t)]),
        ForAll([t], Implies(g(And(tstate(before, t) == S_PENDING, tstate(after, t) != S_PENDING)),
                            after.f('$finished_vt', t) >= vt(before)),
               patterns=[after.f('$finished_vt', t)]),
        # a task is cancelled only if somebody asked for it
        ForAll([t], Implies(g(And(tstate(before, t) == S_PENDING, tstate(after, t) == S_CANCELLED)),
                            after.f('$cancel_req', t)), patterns=[tstate(after, t)]),
    ]


def clock_rely(before, after):
    return [vt(after) >= vt(before)]


# ---------------------------------------------------------------- E7: time.time  (A-CLOCK)
CLK = z3.Const('clock_offset', L.R)      # wall clock = loop clock + a constant

c = contract('time.time', None, kind='env').returns('real')
c.assumed = ['E7/A-CLOCK: time.time() is the event-loop clock plus a constant; floats are reals (no rounding)']
c.pure = lambda c: V('real', vt(c.cur) + CLK)

# ---------------------------------------------------------------- E4: Task.cancel
c = contract('Task.cancel', None, kind='env').param('self').returns('bool')
c.assumed = ['E4: Task.cancel() has no effect on a task that is not pending; otherwise it requests cancellation '
             '(the coroutine receives CancelledError at its next resumption, or never starts)']
c.modifies('$cancel_req', '$cancel_vt')
c.ensures('requested-iff-pending', lambda c: And(
    c.cur.f('$cancel_req', c.a.self) == Or(c.pre.f('$cancel_req', c.a.self), tstate(c.pre, c.a.self) == S_PENDING),
    Implies(And(tstate(c.pre, c.a.self) == S_PENDING, Not(c.pre.f('$cancel_req', c.a.self))),
            c.cur.f('$cancel_vt', c.a.self) == vt(c.pre)),
    Implies(Not(And(tstate(c.pre, c.a.self) == S_PENDING, Not(c.pre.f('$cancel_req', c.a.self)))),
            c.cur.f('$cancel_vt', c.a.self) == c.pre.f('$cancel_vt', c.a.self))))
c.ensures('others-untouched', lambda c: And(
    unchanged_field(c.pre, c.cur, '$cancel_req', lambda o: o == c.a.self),
    unchanged_field(c.pre, c.cur, '$cancel_vt', lambda o: o == c.a.self)))

c = contract('Task.exception', None, kind='env').param('self').returns('ref')
c.assumed = ['E4b: Task.exception() of a task that finished with an exception returns that exception and changes no state '
             'the package reads (it only marks the exception as retrieved)']
c.requires('finished-with-an-exception', lambda c: And(tstate(c.pre, c.a.self) == S_FINISHED,
                                                       truthy(c.pre.f('_exception', c.a.self))))
c.ensures('the-exception', lambda c: c.result == c.pre.f('_exception', c.a.self))

# ---------------------------------------------------------------- E2: asyncio.create_task
L.register_ghost('$wjob', z3.ArraySort(Ref, Ref))     # task -> job whose `wrapped` it runs (None otherwise)
L.register_ghost('$shut', z3.ArraySort(Ref, L.I))     # job -> number of co_shutdown tasks created for it

c = contract('asyncio.create_task', None, kind='env').param('coro', 'any').returns('ref')
c.assumed = ['E2/A-NO-EAGER: asyncio.create_task returns a fresh pending task; its coroutine has executed no step yet']
c.modifies('$alive', '_state', '_exception', '_result', '$cancel_req', '$wjob', '$twin', '$sd_of', '$shut',
           '$created_vt', '_job')


def _entry_preconditions(c):
    """the state-dependent preconditions of the coroutine (Contract.entry_requires) hold when the task is created;
    they still hold when its first step runs because the coroutine's own rely keeps them (A-NO-EAGER: nothing of
    the coroutine has run in between)"""
    from pyvc.contracts_api import Ctx
    coro = c.a.coro
    if coro.kind != 'coro':
        return z3.BoolVal(True)
    cc, captured = coro.extra
    return And([fn(Ctx(pre=c.pre, cur=c.pre, args=captured)) for _lab, fn in getattr(cc, 'entry_requires', [])]
               or [z3.BoolVal(True)])


c.requires('entry-preconditions-of-the-coroutine', _entry_preconditions)


def _create_task_post(c):
    t = c.result
    coro = c.a.coro
    if coro.kind != 'coro':
        raise L.Unsupported('create_task on a non-coroutine value')
    cc, captured = coro.extra
    pre, cur = c.pre, c.cur
    out = [Not(pre.alive(t)), cur.alive(t), isa['Task'](t), t != NONE,
           tstate(cur, t) == S_PENDING, cur.f('_exception', t) == NONE, Not(cur.f('$cancel_req', t)),
           cur.f('$created_vt', t) == vt(pre), cur.f('_job', t) == NONE]
    for f in ('_state', '_exception', '_result', '$cancel_req', '$created_vt', '_job', '$wjob', '$twin', '$sd_of'):
        out.append(unchanged_field(pre, cur, f, lambda o: o == t))
    o_ = q()
    out.append(ForAll([o_], Implies(And(Not(pre.alive(o_)), cur.alive(o_)), o_ == t), patterns=[cur.alive(o_)]))
    if cc.qualname == 'Window.run_job.<locals>.wrapped':
        out += [cur.f('$wjob', t) == captured['job'], cur.f('$twin', t) == captured['self'],
                cur.f('$sd_of', t) == NONE, cur.H('$shut') == pre.H('$shut')]
    elif cc.method == 'co_shutdown':
        j = captured['self']
        out += [cur.f('$wjob', t) == NONE, cur.f('$sd_of', t) == j, cur.f('$twin', t) == NONE,
                cur.f('$shut', j) == pre.f('$shut', j) + 1,
                unchanged_field(pre, cur, '$shut', lambda o: o == j)]
    else:
        raise L.Unsupported('create_task on coroutine %s' % cc.qualname)
    return And(out)


c.ensures('fresh-pending-task', _create_task_post)

# ---------------------------------------------------------------- E1: asyncio.wait
c = contract('asyncio.wait', None, kind='env').param('fs', 'set') \
    .param('timeout', 'kw:ref', None).param('return_when', 'kw:str', 'ALL_COMPLETED').returns('tuple:set,set')
c.is_async = True
c.suspends = True
c.may_cancel = True
c.assumed = ['E1: asyncio.wait(fs, timeout, return_when) partitions fs into (done, pending); done tasks are not pending, pending ones are; '
             'without timeout it returns only when the return_when condition holds; it returns an empty done set / a '
             'non-empty pending set only when the timeout has elapsed; it never cancels members of fs; raises ValueError on an empty fs']
c.requires('wait-set-not-empty', lambda c: (lambda x: Exists([x], c.pre.mem(c.a.fs, x)))(q()))
c.modifies('$alive', '$elems', '$setrole')


def _wait_post(c):
    done, pend = c.result
    pre, cur = c.pre, c.cur
    FS = pre.elems(c.a.fs)
    x = q()
    tau = c.a.timeout
    first = c.a.return_when == L.str_const('FIRST_COMPLETED')
    D, P = cur.elems(done), cur.elems(pend)
    vt0 = vt(c.pre)
    cur.g['$last-wait-vt'] = vt(cur)
    cur.g['$wait'] = dict(pre=c.pre, post=cur.copy(), done=done, pend=pend)
    out = [
        Not(pre.alive(done)), Not(pre.alive(pend)), cur.alive(done), cur.alive(pend), done != pend,
        isa['set'](done), isa['set'](pend), cur.f('$setrole', done) == 0, cur.f('$setrole', pend) == 0,
        unchanged_field(pre, cur, '$setrole', lambda o: Or(o == done, o == pend)),
        ForAll([x], Select(FS, x) == Or(Select(D, x), Select(P, x)), patterns=[Select(D, x), Select(P, x), Select(FS, x)]),
        ForAll([x], Not(And(Select(D, x), Select(P, x))), patterns=[Select(D, x), Select(P, x)]),
        ForAll([x], Implies(Select(D, x), tstate(cur, x) != S_PENDING), patterns=[Select(D, x)]),
        ForAll([x], Implies(Select(P, x), tstate(cur, x) == S_PENDING), patterns=[Select(P, x)]),
        old_sets_unchanged(pre, cur),
        allocates_only(pre, cur, 'set'),
        # FIRST_COMPLETED: an empty done set means the timeout elapsed
        Implies(And(first, Not(L.nonempty(D))),
                And(tau != NONE, vt(cur) >= vt0 + L.numval(tau))),
        # ALL_COMPLETED: a non-empty pending set means the timeout elapsed
        Implies(And(Not(first), L.nonempty(P)),
                And(tau != NONE, vt(cur) >= vt0 + L.numval(tau))),
        And(L.ne_facts(D) + L.ne_facts(P)),
    ]
    return And(out)


c.ensures('partition-of-the-wait-set', _wait_post)

# ---------------------------------------------------------------- E6: asyncio.gather over finished futures
c = contract('asyncio.gather', None, kind='env').param('aws', 'varargs') \
    .param('return_exceptions', 'kw:bool', False).returns('ref')
c.is_async = True
c.suspends = True          # the documented contract does not promise either (3.11 suspends, 3.12 does not)
c.may_cancel = True
c.assumed = ['E6: asyncio.gather(*finished_futures, return_exceptions=True) returns without changing any task and '
             'without letting virtual time pass; it may or may not suspend']
c.requires('all-awaited-futures-are-finished', lambda c: (lambda i: ForAll([i], Implies(
    And(0 <= i, i < c.pre.llen(c.a.aws)), tstate(c.pre, c.pre.lat(c.a.aws, i)) != S_PENDING),
    patterns=[c.pre.lat(c.a.aws, i)]))(fresh('i', L.I)))
c.ensures('zero-time', lambda c: vt(c.cur) == vt(c.pre))
