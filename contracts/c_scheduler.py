"""
Contract of Scheduler.co_run (properties C04, C10): verdict and diagnosis of a nestable scheduler, and the
identity of the exception a critical scheduler re-raises.
"""
import z3
from pyvc import logic as L
from pyvc.contracts_api import contract, REG
from pyvc.logic import Ref, NONE, TRUE, FALSE, truthy, card, isa, fresh, V
from .spec import *
from .c_job import tstate, finished, state_consts_facts
from .env_asyncio import vt
from .c_run import sched_rely, SCHED_RELY_FIELDS, RUN_MODIFIES, init_vt, none_pending
from .c_corun import created, Jset, q_clean, q_true, q_false, q_bool, q_shutdown, frame_graph

F = 'scheduler.py'
PURE = REG.get('PureScheduler.co_run')

c = contract('Scheduler.co_run', F).param('self').returns('ref')
c.for_props('C04', 'C10', 'C11')
c.is_async = True
c.ghost_init = init_vt
c.rely_fields = SCHED_RELY_FIELDS
c.rely = sched_rely
for lab, fn in PURE._requires:
    c.requires(lab, fn)
c.requires('self-is-a-nestable-scheduler', lambda c: isa['Scheduler'](c.a.self))
c.schemas = dict(PURE.schemas)
c.modifies(*RUN_MODIFIES)
c.store_guard = lambda c, field, obj, val: z3.BoolVal(False)

c.ensures('graph-unchanged', lambda c: frame_graph(c, c.cur))
c.ensures('result-is-a-bool', q_bool, props=['C04'])
c.ensures('Q-clean', q_clean, props=['C11'])
c.ensures('Q-true', q_true, props=['C04'])
c.ensures('Q-false', q_false, props=['C04'])
c.ensures('returns-False-only-if-not-critical', lambda c: Implies(c.result == FALSE, Not(c.pre.f('critical', c.a.self))),
          props=['C04', 'C10'])
c.ensures('Q-shutdown', q_shutdown, props=['C13'])


def _raise_post(c):
    """a critical scheduler that failed raises TimeoutError for a timeout, or the very exception object of
    one of its critical jobs for a critical failure"""
    st = c.cur
    S = c.a.self
    T = c.pre.f('timeout', S)
    j = q()
    timeout = And(st.f('_failed_timeout', S) != FALSE, st.f('_failed_critical', S) == FALSE, T != NONE,
                  vt(st) >= c.pre.g['$vt'] + L.numval(T), isa['TimeoutError'](c.exc), Not(c.pre.alive(c.exc)))
    critical = And(st.f('_failed_critical', S) == TRUE, st.f('_failed_timeout', S) == FALSE,
                   Exists([j], And(Select(Jset(c), j), c.pre.f('critical', j), st.f('_task', j) != NONE,
                                   truthy(st.f('_exception', st.f('_task', j))),
                                   c.exc == st.f('_exception', st.f('_task', j)))))
    return And(c.pre.f('critical', S), Or(timeout, critical))


c.raises('CancelledError', 'Q-clean', q_clean, props=['C11'])
c.raises('Exception', 'raises-TimeoutError-or-the-exception-of-a-critical-job', _raise_post, props=['C04', 'C10'])
c.raises('Exception', 'Q-clean', q_clean, props=['C11'])
c.raises('Exception', 'Q-shutdown', q_shutdown, props=['C13'])

c.loop(0, inv=[
    ('no-visited-critical-member-holds-an-exception', lambda c: (lambda m: ForAll([m], Implies(
        And(Select(c.visited, m), c.pre.f('critical', m)),
        Not(truthy(If(c.cur.f('_task', m) == NONE, NONE, c.cur.f('_exception', c.cur.f('_task', m)))))),
        patterns=[Select(c.visited, m), c.cur.f('_task', m)]))(q())),
])
