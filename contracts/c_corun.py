"""
Contract of PureScheduler.co_run (properties C01-C06, C08-C13): loop invariants I0-I7 of DESIGN.md 6.0,
exit contracts Q-clean / Q-true / Q-false / Q-abort / Q-shutdown, rely/guarantee at every await.
"""
import z3
from pyvc import logic as L
from pyvc.contracts_api import contract, Ctx
from pyvc.logic import Ref, NONE, TRUE, FALSE, truthy, card, isa, fresh, V
from .spec import *
from .c_job import S_FINISHED, S_PENDING, S_CANCELLED, tstate, finished, state_consts_facts, task_of, done_pred
from .env_asyncio import vt, CLK
from .c_run import (sched_rely, SCHED_RELY_FIELDS, RUN_MODIFIES, all_tasks, none_pending, init_vt, _cl, mine_task)
from .c_graph import BL, listset

F = 'purescheduler.py'


# ---------------------------------------------------------------- vocabulary
def Jset(c):
    return J(c.pre, c.a.self)


_GSETS = {}


def gset(c, key, pred, prefix, triggers=None):
    """definitional set shared by every context that asks for the same key (so that an invariant assumed
    at a loop head and a lemma stated later talk about the same set constant)"""
    if key not in _GSETS:
        axs = []
        A = L.setdef(axs, pred, prefix, triggers)
        _GSETS[key] = (A, axs)
    A, axs = _GSETS[key]
    c.fact(axs)
    return A


def created(c, st):
    """tasks this activation created: allocated since entry, running `wrapped` of a member"""
    Jp = Jset(c)
    key = ('created', c.pre.H('$alive').get_id(), st.H('$alive').get_id(), st.H('$wjob').get_id(), Jp.get_id())
    return gset(c, key, lambda t: And(isa['Task'](t), Not(c.pre.alive(t)), st.alive(t), Select(Jp, st.f('$wjob', t))),
                'created')


def unstarted(c, st):
    """U := members without a task (the candidate set at which acyclicity is used)"""
    Jp = Jset(c)
    key = ('unstarted', st.H('_task').get_id(), Jp.get_id())
    return gset(c, key, lambda j: And(Select(Jp, j), st.f('_task', j) == NONE), 'unstarted',
                triggers=lambda j: [st.f('_task', j)])


def finite_members(c):
    Jp = Jset(c)
    key = ('finite', Jp.get_id(), c.pre.H('forever').get_id())
    return gset(c, key, lambda j: And(Select(Jp, j), Not(c.pre.f('forever', j))), 'finite')


def delivered_finite(c, st, Pset):
    """tasks delivered by asyncio.wait (created, no longer in the wait set) whose job is not forever"""
    CR = created(c, st)
    key = ('delfin', CR.get_id(), Pset.get_id(), st.H('_job').get_id())
    return gset(c, key, lambda t: And(Select(CR, t), Not(Select(Pset, t)), Not(c.pre.f('forever', st.f('_job', t)))),
                'delfin')


def frame_graph(c, st):
    """I0: the member set and the requirement sets are as on entry (their container objects are never
    stored to; their contents are what this clause protects)"""
    S = c.a.self
    m = q()
    return And(st.elems(st.f('jobs', S)) == c.pre.elems(c.pre.f('jobs', S)),
               ForAll([m], Implies(Select(Jset(c), m),
                                   st.elems(st.f('required', m)) == c.pre.elems(c.pre.f('required', m))),
                      patterns=[st.elems(st.f('required', m))]))


def I2(c, st):
    CR = created(c, st)
    Jp = Jset(c)
    t, j = q(2)
    win = st.env['window'].t
    return And(
        ForAll([t], Implies(Select(CR, t), And(Select(Jp, st.f('_job', t)), st.f('_task', st.f('_job', t)) == t,
                                               st.f('$wjob', t) == st.f('_job', t), st.f('$twin', t) == win,
                                               t != NONE)),
               patterns=[Select(CR, t)]),
        ForAll([j], Implies(And(Select(Jp, j), st.f('_task', j) != NONE),
                            And(Select(CR, st.f('_task', j)), st.f('_job', st.f('_task', j)) == j)),
               patterns=[st.f('_task', j)]))


def IN(c, st):
    """a member without a task is not running (established by _reset_tasks, kept by R2b): what lets _create_task
    hand the job to the window (`job-not-running`)"""
    Jp = Jset(c)
    j = q()
    return ForAll([j], Implies(And(Select(Jp, j), st.f('_task', j) == NONE), Not(st.f('_running', j))),
                  patterns=[st.f('_task', j)])


def I3(c, st):
    Jp = Jset(c)
    j, r = q(2)
    return ForAll([j, r], Implies(And(Select(Jp, j), st.f('_task', j) != NONE, E(c.pre, j, r)),
                                  And(st.f('_task', r) != NONE, finished(st, st.f('_task', r)))),
                  patterns=[z3.MultiPattern(st.f('_task', j), E(c.pre, j, r))])


def I4(c, st, Pset):
    """eager: a member without a task is held back by a requirement that is not delivered yet"""
    Jp = Jset(c)
    j, r = q(2)
    blocked = lambda j_: Exists([r], And(E(c.pre, j_, r), Or(st.f('_task', r) == NONE, Select(Pset, st.f('_task', r)))))
    return ForAll([j], Implies(And(Select(Jp, j), st.f('_task', j) == NONE), blocked(j)),
                  patterns=[st.f('_task', j)])


def delivered_ok(c, st, Pset):
    """I1/I6: delivered tasks are finished, and none of them is a critical job that raised"""
    CR = created(c, st)
    t = q()
    return ForAll([t], Implies(And(Select(CR, t), Not(Select(Pset, t))),
                               And(finished(st, t),
                                   Implies(truthy(st.f('_exception', t)), Not(c.pre.f('critical', st.f('_job', t)))))),
                  patterns=[Select(CR, t)])


def no_cancel(c, st):
    """no task of this activation has been asked to cancel, hence none is cancelled"""
    CR = created(c, st)
    t = q()
    return ForAll([t], Implies(Select(CR, t), And(Not(st.f('$cancel_req', t)),
                                                  Or(tstate(st, t) == S_PENDING, tstate(st, t) == S_FINISHED))),
                  patterns=[Select(CR, t)])


def own_fields(c, st):
    """flags and deadline as set by the prologue"""
    S = c.a.self
    T = c.pre.f('timeout', S)
    exp = st.f('_expiration', S)
    return And(st.f('_failed_critical', S) == FALSE, st.f('_failed_timeout', S) == FALSE,
               Not(st.f('_did_shutdown', S)),
               Implies(T == NONE, exp == NONE),
               Implies(T != NONE, And(exp != NONE, L.is_num(exp), L.numval(exp) == c.pre.g['$vt'] + CLK + L.numval(T))),
               vt(st) >= c.pre.g['$vt'])


def window_ok(c, st):
    win = st.env['window'].t
    S = c.a.self
    w = c.pre.f('jobs_window', S)
    return And(isa['Window'](win), Not(c.pre.alive(win)), st.alive(win), isa['Queue'](st.f('queue', win)),
               st.alive(st.f('queue', win)),
               st.f('$qmax', st.f('queue', win)) == If(w == NONE, 0, z3.ToInt(L.numval(w))))


def counts(c, st, Pset):
    return And(st.env['nb_jobs_finite'].t == card(finite_members(c)),
               st.env['nb_jobs_done'].t == card(delivered_finite(c, st, Pset)),
               st.env['nb_jobs_forever'].t == card(Jset(c)) - card(finite_members(c)))


# ---------------------------------------------------------------- the contract
c = contract('PureScheduler.co_run', F).param('self').returns('ref')
# co_run numbers its jobs for its messages only: it uses the frame-only (assumed) contract of _set_sched_ids
c.dispatch_override = {'_set_sched_ids': 'PureScheduler._set_sched_ids/frame-only'}
c.for_props('C01', 'C02', 'C03', 'C04', 'C05', 'C06', 'C08', 'C09', 'C11', 'C12', 'C13')
c.is_async = True
c.ghost_init = init_vt
c.rely_fields = SCHED_RELY_FIELDS
c.rely = sched_rely
c.requires('state-constants', lambda c: And(state_consts_facts()))
c.requires('self-is-scheduler', lambda c: is_sched(c.a.self))
c.requires('closed', lambda c: closed(c.pre, c.a.self))
c.requires_schema('acyclic', lambda c, U: acyclic_at(c.pre, c.a.self, U), lambda: (fresh('U', L.SetV),))
c.requires('not-shut-down-yet', lambda c: Not(c.pre.f('_did_shutdown', c.a.self)))
c.requires('parameters', lambda c: And(
    Or(c.pre.f('jobs_window', c.a.self) == NONE, L.is_num(c.pre.f('jobs_window', c.a.self))),
    Or(c.pre.f('timeout', c.a.self) == NONE, And(L.is_num(c.pre.f('timeout', c.a.self)),
                                                  L.numval(c.pre.f('timeout', c.a.self)) >= 0)),
    Or(c.pre.f('shutdown_timeout', c.a.self) == NONE, L.is_num(c.pre.f('shutdown_timeout', c.a.self)))))
c.requires('no-stale-task-refers-to-a-member', lambda c: (lambda t: ForAll([t], Implies(
    c.pre.alive(t), And(Not(member(c.pre, c.a.self, c.pre.f('$wjob', t))),
                        Not(member(c.pre, c.a.self, c.pre.f('$sd_of', t))))),
    patterns=[c.pre.f('$wjob', t)]))(q()))
c.modifies(*RUN_MODIFIES)
# guarantee (R3/R4 of the other activations): this coroutine stores only its own flags
c.store_guard = lambda c, field, obj, val: obj == c.a.self \
    if field in ('_failed_critical', '_failed_timeout') else z3.BoolVal(False)


# ---------------------------------------------------------------- loop 0: tasks of the entry jobs
def _pending_listset(c):
    return listset(c, c.cur, c.cur.env['pending'].t)


def _l0(c):
    st = c.cur
    S = c.a.self
    Jp = Jset(c)
    pend = st.env['pending'].t
    entry = st.env['entry_jobs'].t
    idx = c.index
    i, k = fresh('i', L.I), fresh('i', L.I)
    j, r, t = q(3)
    CR = created(c, st)
    PL = _pending_listset(c)
    at = lambda ix: st.lat(pend, ix)
    ent = lambda ix: st.lat(entry, ix)
    return [
        ('I0-graph-unchanged', frame_graph(c, st)),
        ('I0-backlinks', BL(st, S, Jp)),
        ('I0-own-fields', own_fields(c, st)),
        ('I0-window', window_ok(c, st)),
        ('clock-still', vt(st) == c.pre.g['$vt']),
        ('counts', And(st.env['nb_jobs_finite'].t == card(finite_members(c)), st.env['nb_jobs_done'].t == 0,
                       st.env['nb_jobs_forever'].t == card(Jp) - card(finite_members(c)))),
        ('one-task-per-visited-entry-job', And(st.llen(pend) == idx, ForAll([i], Implies(
            And(0 <= i, i < idx), And(at(i) == st.f('_task', ent(i)), at(i) != NONE, Select(CR, at(i)))),
            patterns=[at(i), ent(i)]))),
        ('tasks-distinct', ForAll([i, k], Implies(And(0 <= i, i < k, k < idx), at(i) != at(k)),
                                  patterns=[z3.MultiPattern(at(i), at(k))])),
        ('created-are-exactly-the-list', ForAll([t], Select(CR, t) == Select(PL, t),
                                                patterns=[Select(CR, t), Select(PL, t)])),
        ('I2-one-task-per-job', I2(c, st)),
        ('IN-idle-members-not-running', IN(c, st)),
        ('only-entry-jobs-have-a-task', ForAll([j, r], Implies(And(Select(Jp, j), st.f('_task', j) != NONE),
                                                               Not(E(c.pre, j, r))),
                                               patterns=[z3.MultiPattern(st.f('_task', j), E(c.pre, j, r))])),
        ('no-cancellation', no_cancel(c, st)),
        ('fresh-tasks-pending', ForAll([t], Implies(Select(CR, t), tstate(st, t) == S_PENDING),
                                       patterns=[Select(CR, t)])),
        ('entry-list-stable', And(Not(c.pre.alive(entry)), Not(c.pre.alive(pend)), pend != entry)),
    ]


_L0 = ['I0-graph-unchanged', 'I0-backlinks', 'I0-own-fields', 'I0-window', 'clock-still', 'counts',
       'one-task-per-visited-entry-job', 'tasks-distinct', 'created-are-exactly-the-list', 'I2-one-task-per-job',
       'IN-idle-members-not-running', 'only-entry-jobs-have-a-task', 'no-cancellation', 'fresh-tasks-pending', 'entry-list-stable']
def _l0_list_hints(h, e):
    """the list `pending` grew by exactly the task just created (instance of the list-set axiom at the
    new last index, which the simplifier would otherwise rewrite away)"""
    hs, st = h.cur, e.cur
    pend = st.env['pending'].t
    n = hs.llen(hs.env['pending'].t)
    PLe, PLh = _pending_listset(e), listset(e, hs, hs.env['pending'].t)
    tn = st.lat(pend, n)
    t = q()
    return [Implies(And(0 <= n, n < st.llen(pend)), Select(PLe, tn)),
            L.Lemma('list-grew-by-the-new-task', ForAll([t], Select(PLe, t) == Or(Select(PLh, t), t == tn),
                                                        patterns=[Select(PLe, t)]))]


c.loop(0, inv=_cl(_l0, _L0, 'l0'), clause_hints={'created-are-exactly-the-list': _l0_list_hints})


# ---------------------------------------------------------------- loop 1: the main loop
def _P(c, st=None):
    st = st or c.cur
    return st.elems(st.env['pending'].t)


def _main(c):
    st = c.cur
    S = c.a.self
    Jp = Jset(c)
    P = _P(c)
    CR = created(c, st)
    x = q()
    c.fact(L.card_facts(finite_members(c)), L.card_facts(delivered_finite(c, st, P)))
    return [
        ('I0-graph-unchanged', frame_graph(c, st)),
        ('I0-backlinks', BL(st, S, Jp)),
        ('I0-own-fields', own_fields(c, st)),
        ('I0-window', window_ok(c, st)),
        ('I1-wait-set-within-created', And(L.subset(P, CR), all_tasks(st, P),
                                           st.f('$setrole', st.env['pending'].t) == 0,
                                           st.alive(st.env['pending'].t), isa['set'](st.env['pending'].t))),
        ('I1-wait-set-not-empty', Exists([x], Select(P, x))),
        ('I1-delivered-finished-and-not-critical-failures', delivered_ok(c, st, P)),
        ('I1-no-cancellation-so-far', no_cancel(c, st)),
        ('I2-one-task-per-job', I2(c, st)),
        ('I3-requirements-finished-before-a-task-exists', I3(c, st)),
        ('IN-idle-members-not-running', IN(c, st)),
        ('I4-eager', I4(c, st, P)),
        ('I5-counts', counts(c, st, P)),
    ]


_MAIN = ['I0-graph-unchanged', 'I0-backlinks', 'I0-own-fields', 'I0-window', 'I1-wait-set-within-created',
         'I1-delivered-finished-and-not-critical-failures', 'I1-no-cancellation-so-far',
         'I2-one-task-per-job', 'I3-requirements-finished-before-a-task-exists', 'IN-idle-members-not-running',
         'I4-eager', 'I5-counts', 'I1-wait-set-not-empty']


def _main_hints(h, e):
    """back edge of the main loop.  Intermediate states: h head, w after asyncio.wait, l4 before the
    candidate loop, e end of the iteration.  The lemmas split the step into set equalities the solvers
    can chain; the last ones are the cardinality / acyclicity instances (K5, K8, `acyclic` at the
    members without a task)."""
    st = e.cur
    hs = h.cur
    g = st.g
    w = g.get('$wait')
    l4 = g.get('$loop4_pre')
    if w is None or l4 is None:
        return []
    ws = w['post']
    D, Pw = ws.elems(w['done']), ws.elems(w['pend'])
    Ph, Pe = _P(h), _P(e)
    CRh, CRe, CR4 = created(e, hs), created(e, st), created(e, l4)
    t, j, r = q(3)
    out = []
    out.append(L.Lemma('no-task-of-mine-appears-before-the-candidate-loop',
                       ForAll([t], Select(CR4, t) == Select(CRh, t), patterns=[Select(CR4, t), Select(CRh, t)])))
    out.append(L.Lemma('wait-set-before-the-candidate-loop-is-what-wait-left',
                       ForAll([t], l4.mem(l4.env['pending'].t, t) == Select(Pw, t),
                              patterns=[l4.mem(l4.env['pending'].t, t)])))
    out.append(L.Lemma('wait-set-is-what-wait-left-plus-the-new-tasks',
                       ForAll([t], Select(Pe, t) == Or(Select(Pw, t), And(Select(CRe, t), Not(Select(CRh, t)))),
                              patterns=[Select(Pe, t)])))
    out.append(L.Lemma('delivered-is-previously-delivered-plus-this-batch',
                       ForAll([t], And(Select(CRe, t), Not(Select(Pe, t))) ==
                              Or(And(Select(CRh, t), Not(Select(Ph, t))), Select(D, t)),
                              patterns=[Select(CRe, t)])))
    # counting: the finite delivered tasks grow by exactly the batch's non-forever ones (K5)
    if 'done_jobs_not_forever' in st.env:
        Dnf = st.elems(st.env['done_jobs_not_forever'].t)
        A0, A1 = delivered_finite(e, hs, Ph), delivered_finite(e, st, Pe)
        out.append(L.Lemma('finite-delivered-is-a-disjoint-union',
                           And(ForAll([t], Select(A1, t) == Or(Select(A0, t), Select(Dnf, t)), patterns=[Select(A1, t)]),
                               ForAll([t], Not(And(Select(A0, t), Select(Dnf, t))), patterns=[Select(Dnf, t)]))))
        out.append(L.K5(A0, Dnf, A1))
        out += L.card_facts(A0) + L.card_facts(A1) + L.card_facts(Dnf)
    return out


def _nonempty_hints(h, e):
    """the wait set cannot be empty at the back edge: if it were, every member without a task would be
    held back by another member without a task (I4) - a self-supporting set, excluded by `acyclic` - so
    every finite member has a delivered task, and the counts would be equal (K8)"""
    st = e.cur
    Pe = _P(e)
    U = unstarted(e, st)
    e.use_schema('acyclic', U)
    A = delivered_finite(e, st, Pe)
    Bf = finite_members(e)
    f = lambda t_: st.f('_job', t_)
    gg = lambda j_: st.f('_task', j_)
    x, a, b, u, r = q(5)
    empty = ForAll([x], Not(Select(Pe, x)), patterns=[Select(Pe, x)])
    out = []
    out.append(L.Lemma('delivered-finite-tasks-map-into-the-finite-members',
                       ForAll([a], Implies(Select(A, a), And(Select(Bf, f(a)), gg(f(a)) == a)), patterns=[Select(A, a)])))
    out.append(L.Lemma('with-an-empty-wait-set-started-finite-members-are-delivered',
                       Implies(empty, ForAll([b], Implies(And(Select(Bf, b), gg(b) != NONE),
                                                          And(Select(A, gg(b)), f(gg(b)) == b)), patterns=[gg(b)]))))
    out.append(L.Lemma('with-an-empty-wait-set-the-unstarted-members-support-themselves',
                       Implies(empty, ForAll([u], Implies(Select(U, u), Exists([r], And(Select(U, r), E(e.pre, u, r)))),
                                             patterns=[Select(U, u)]))))
    out.append(L.Lemma('with-an-empty-wait-set-no-member-is-unstarted',
                       Implies(empty, ForAll([u], Not(Select(U, u)), patterns=[Select(U, u)]))))
    out.append(L.Lemma('with-an-empty-wait-set-every-member-is-started',
                       Implies(empty, ForAll([u], Implies(Select(Jset(e), u), gg(u) != NONE),
                                             patterns=[gg(u), Select(Jset(e), u)]))))
    out.append(L.Lemma('with-an-empty-wait-set-every-finite-member-is-delivered',
                       Implies(empty, ForAll([b], Implies(Select(Bf, b), And(Select(A, gg(b)), f(gg(b)) == b)),
                                             patterns=[gg(b)]))))
    out += [L.K8(A, Bf, f, gg)] + L.card_facts(A) + L.card_facts(Bf)
    return out


def _main_est_hints(c):
    """after the entry loop: every member that requires nothing has its task"""
    st = c.cur
    j, r = q(2)
    return [L.Lemma('all-entry-jobs-started', ForAll([j], Implies(
        And(Select(Jset(c), j), Not(Exists([r], E(c.pre, j, r)))), st.f('_task', j) != NONE),
        patterns=[st.f('_task', j)]))]


c.loop(1, inv=_cl(_main, _MAIN, 'main'), hints=_main_hints, var_kinds={'pending': 'set'},
       est_hints=_main_est_hints, forget=True, clause_hints={'I1-wait-set-not-empty': _nonempty_hints})


def _corun_post_hints(c):
    """exits of co_run.  w: state after the deciding asyncio.wait; x: after _tidy_tasks_exception;
    ty: around _tidy_tasks; sd: around co_shutdown."""
    c.use_schema('acyclic', Jset(c))
    st = c.cur
    g = st.g
    w, ty, sd, tx = g.get('$wait'), g.get('$tidy'), g.get('$sd'), g.get('$tidyx')
    out = []
    if w is None:
        return out
    hs, ws = w['pre'], w['post']
    D, Pw = ws.elems(w['done']), ws.elems(w['pend'])
    CRh, CRe = created(c, hs), created(c, st)
    t, j = q(2)
    out.append(L.Lemma('no-task-of-mine-appears-after-the-deciding-wait',
                       ForAll([t], Select(CRe, t) == Select(CRh, t), patterns=[Select(CRe, t), Select(CRh, t)])))
    if ty is not None:
        tp, tq = ty['pre'], ty['post']
        out.append(L.Lemma('tidy-was-given-what-wait-left', ForAll([t], tp.mem(ty['pending'], t) == Select(Pw, t),
                                                                   patterns=[tp.mem(ty['pending'], t)])))
        if c.exc is None:
            out.append(L.Lemma('tidy-at-the-deciding-instant', vt(tp) == vt(ws)))
        out.append(L.Lemma('nothing-created-is-pending-after-tidy', none_pending(tq, CRh)))
        if c.exc is None:
            out.append(L.Lemma('cancel-requests-are-those-of-tidy', ForAll([t], Implies(
                And(Select(CRh, t), tq.f('$cancel_req', t)),
                And(Select(Pw, t), tq.f('$cancel_vt', t) == vt(ws))), patterns=[tq.f('$cancel_req', t)])))
    S = c.a.self
    T = c.pre.f('timeout', S)
    x_ = q()
    out.append(L.Lemma('an-empty-batch-means-the-timeout-elapsed', Implies(
        Not(L.nonempty(D)), And(T != NONE, vt(ws) >= c.pre.g['$vt'] + L.numval(T)))))
    out.append(L.Lemma('clock-does-not-go-back', vt(st) >= vt(ws)))
    out.append(L.Lemma('own-flags-before-the-verdict-is-recorded', And(
        Or(T == NONE, And(L.is_num(T), T != FALSE, T != NONE)),
        hs.f('_failed_critical', S) == FALSE, hs.f('_failed_timeout', S) == FALSE)))
    if sd is not None:
        sp, sq = sd['pre'], sd['post']
        out.append(L.Lemma('shutdown-leaves-the-run-tasks-alone', ForAll([t], Implies(
            Select(CRh, t), And(sq.f('$cancel_req', t) == sp.f('$cancel_req', t),
                                sq.f('$cancel_vt', t) == sp.f('$cancel_vt', t),
                                Implies(tstate(sp, t) != S_PENDING, tstate(sq, t) == tstate(sp, t)))),
            patterns=[sq.f('$cancel_req', t)])))
    # success: all finite members are delivered (K5 for the count, K9 pigeonhole for the conclusion)
    if tx is not None and 'done_jobs_not_forever' in st.env:
        xs = tx['post']
        Dnf = st.elems(st.env['done_jobs_not_forever'].t)
        Ph = hs.elems(hs.env['pending'].t)
        A0, A1 = delivered_finite(c, hs, Ph), delivered_finite(c, xs, Pw)
        Bf = finite_members(c)
        out.append(L.Lemma('finite-delivered-is-a-disjoint-union',
                           And(ForAll([t], Select(A1, t) == Or(Select(A0, t), Select(Dnf, t)), patterns=[Select(A1, t)]),
                               ForAll([t], Not(And(Select(A0, t), Select(Dnf, t))), patterns=[Select(Dnf, t)]))))
        out.append(L.K5(A0, Dnf, A1))
        out += L.card_facts(A0) + L.card_facts(A1) + L.card_facts(Dnf) + L.card_facts(Bf)
        f = lambda t_: xs.f('_job', t_)
        gg = lambda j_: xs.f('_task', j_)
        out.append(L.K9(A1, Bf, f, gg))
        out.append(L.Lemma('every-finite-member-is-delivered', ForAll([j], Implies(
            Select(Bf, j), And(Select(A1, xs.f('_task', j)), xs.f('_job', xs.f('_task', j)) == j)),
            patterns=[xs.f('_task', j)])))
    return out


c.post_hints = _corun_post_hints


# ---------------------------------------------------------------- loop 2: is there a critical failure in the batch
def _l2(c):
    st = c.cur
    t = q()
    return [('flag-iff-a-visited-critical-job-raised',
             st.env['critical_failure'].t == Exists([t], And(Select(c.visited, t), truthy(st.f('_exception', t)),
                                                              c.pre.f('critical', st.f('_job', t)))))]


c.loop(2, inv=_cl(_l2, ['flag-iff-a-visited-critical-job-raised'], 'l2'))


# ---------------------------------------------------------------- loop 3: successors of the batch
def _l3(c):
    st = c.cur
    lp = c.loop_pre
    pnj = st.env['possible_next_jobs'].t
    x, t, s = q(3)
    return [
        ('candidates-are-the-successors-of-the-visited-batch', ForAll([x], st.mem(pnj, x) == Exists(
            [t], And(Select(c.visited, t), SUCC(lp, lp.f('_job', t), x))), patterns=[st.mem(pnj, x)])),
        ('other-sets-untouched', ForAll([s], Implies(And(lp.alive(s), s != pnj), st.elems(s) == lp.elems(s)),
                                       patterns=[st.elems(s)])),
        ('candidate-set-fresh', And(Not(c.pre.alive(pnj)), st.alive(pnj), st.f('$setrole', pnj) == 0)),
    ]


c.loop(3, inv=_cl(_l3, ['candidates-are-the-successors-of-the-visited-batch', 'other-sets-untouched',
                        'candidate-set-fresh'], 'l3'))


# ---------------------------------------------------------------- loop 4: start the candidates whose requirements are done
def _l4(c):
    st = c.cur
    lp = c.loop_pre
    S = c.a.self
    Jp = Jset(c)
    pend = st.env['pending'].t
    P, P0 = st.elems(pend), lp.elems(lp.env['pending'].t)
    CR, CR0 = created(c, st), created(c, lp)
    V4 = c.visited
    x, r, t, j, s = q(5)
    return [
        ('I0-graph-unchanged', frame_graph(c, st)),
        ('I0-backlinks', BL(st, S, Jp)),
        ('I0-own-fields', own_fields(c, st)),
        ('I0-window', window_ok(c, st)),
        ('clock-still', vt(st) == vt(lp)),
        ('I2-one-task-per-job', I2(c, st)),
        ('I3-requirements-finished-before-a-task-exists', I3(c, st)),
        ('IN-idle-members-not-running', IN(c, st)),
        ('I1-no-cancellation-so-far', no_cancel(c, st)),
        ('wait-set-grows-by-the-new-tasks', And(
            L.subset(P0, P), L.subset(P, CR), all_tasks(st, P),
            ForAll([t], Implies(And(Select(CR, t), Not(Select(CR0, t))), Select(P, t)), patterns=[Select(CR, t)]),
            ForAll([t], Implies(And(Select(P, t), Not(Select(P0, t))), Not(Select(CR0, t))), patterns=[Select(P, t)]),
            L.subset(CR0, CR), pend == lp.env['pending'].t, st.f('$setrole', pend) == 0, st.alive(pend))),
        ('old-tasks-untouched', ForAll([t], Implies(lp.alive(t), And(
            tstate(st, t) == tstate(lp, t), st.f('_exception', t) == lp.f('_exception', t),
            st.f('_job', t) == lp.f('_job', t), st.f('$wjob', t) == lp.f('$wjob', t))),
            patterns=[tstate(st, t)])),
        ('visited-candidates-settled', ForAll([x], Implies(Select(V4, x), Or(
            st.f('_task', x) != NONE, Exists([r], And(E(c.pre, x, r), Not(done_pred(st, r)))))),
            patterns=[Select(V4, x)])),
        ('unvisited-members-untouched', ForAll([j], Implies(Not(Select(V4, j)), st.f('_task', j) == lp.f('_task', j)),
                                              patterns=[st.f('_task', j)])),
        ('candidates-are-members', L.subset(c.iterset, Jp)),
        ('other-sets-untouched', ForAll([s], Implies(And(lp.alive(s), s != pend), st.elems(s) == lp.elems(s)),
                                       patterns=[st.elems(s)])),
    ]


_L4 = ['I0-graph-unchanged', 'I0-backlinks', 'I0-own-fields', 'I0-window', 'clock-still', 'I2-one-task-per-job',
       'I3-requirements-finished-before-a-task-exists', 'IN-idle-members-not-running', 'I1-no-cancellation-so-far',
       'wait-set-grows-by-the-new-tasks',
       'old-tasks-untouched', 'visited-candidates-settled', 'unvisited-members-untouched', 'candidates-are-members',
       'other-sets-untouched']
def _l4_i2_hints(h, e):
    """a task is created for the candidate only: the tasks that existed belong to other jobs"""
    if h.elem is None:
        return []
    hs, st = h.cur, e.cur
    cand = h.elem
    t = q()
    CRb = created(e, hs)
    CRe = created(e, st)
    tn = st.f('_task', cand)
    return [L.Lemma('created-grows-by-at-most-the-task-of-the-candidate',
                    ForAll([t], Implies(Select(CRe, t), Or(Select(CRb, t), And(t == tn, hs.f('_task', cand) == NONE))),
                           patterns=[Select(CRe, t)])),
            L.Lemma('tasks-that-existed-belong-to-other-jobs', Implies(
        hs.f('_task', cand) == NONE,
        ForAll([t], Implies(Select(CRb, t), And(hs.f('_job', t) != cand, st.f('_job', t) == hs.f('_job', t),
                                                st.f('_task', hs.f('_job', t)) == t)),
               patterns=[Select(CRb, t)])))]


c.loop(4, inv=_cl(_l4, _L4, 'l4'), clause_hints={'I2-one-task-per-job': _l4_i2_hints})


# ---------------------------------------------------------------- loop 5: are all requirements of the candidate done
def _l5(c):
    st = c.cur
    r = q()
    return [('flag-iff-all-visited-requirements-done',
             st.env['requirements_ok'].t == ForAll([r], Implies(Select(c.visited, r), done_pred(st, r))))]


c.loop(5, inv=_cl(_l5, ['flag-iff-all-visited-requirements-done'], 'l5'))


# ---------------------------------------------------------------- exit contracts
def q_clean(c):
    """Q-clean: nothing this activation started is still pending"""
    return none_pending(c.cur, created(c, c.cur))


def q_bool(c):
    return Or(c.result == TRUE, c.result == FALSE)


def q_true(c):
    """success => every non-forever member was started, delivered finished, and no delivered critical job
    raised; no cause is recorded"""
    st = c.cur
    S = c.a.self
    j = q()
    Jp = Jset(c)
    return Implies(c.result == TRUE, And(
        ForAll([j], Implies(And(Select(Jp, j), Not(c.pre.f('forever', j))),
                            And(st.f('_task', j) != NONE, finished(st, st.f('_task', j)),
                                Implies(c.pre.f('critical', j), Not(truthy(st.f('_exception', st.f('_task', j))))))),
               patterns=[st.f('_task', j)]),
        st.f('_failed_critical', S) == FALSE, st.f('_failed_timeout', S) == FALSE))


def q_false(c):
    """failure => exactly one cause is recorded and it did happen"""
    st = c.cur
    S = c.a.self
    T = c.pre.f('timeout', S)
    j = q()
    timeout = And(st.f('_failed_timeout', S) != FALSE, st.f('_failed_critical', S) == FALSE, T != NONE,
                  st.f('_failed_timeout', S) == T, vt(st) >= c.pre.g['$vt'] + L.numval(T))
    critical = And(st.f('_failed_critical', S) == TRUE, st.f('_failed_timeout', S) == FALSE,
                   Exists([j], And(Select(Jset(c), j), c.pre.f('critical', j), st.f('_task', j) != NONE,
                                   truthy(st.f('_exception', st.f('_task', j))))))
    return Implies(c.result == FALSE, Or(timeout, critical))


def q_shutdown(c):
    """co_shutdown() was performed on every normal exit of a non-empty scheduler"""
    x = q()
    return Implies(Exists([x], Select(Jset(c), x)), c.cur.f('_did_shutdown', c.a.self))


def q_cancel_instant(c):
    """whatever this activation cancelled, it cancelled at the instant of the deciding wait"""
    st = c.cur
    t = q()
    w = st.g.get('$last-wait-vt')
    if w is None:
        return z3.BoolVal(True)
    return ForAll([t], Implies(And(Select(created(c, st), t), st.f('$cancel_req', t)), st.f('$cancel_vt', t) == w),
                  patterns=[st.f('$cancel_vt', t)])


c.ensures('graph-unchanged', lambda c: frame_graph(c, c.cur), props=['C04', 'C10'])
c.ensures('Q-clean', q_clean, props=['C11', 'C05', 'C08', 'C09'])
c.ensures('result-is-a-bool', q_bool, props=['C04'])
c.ensures('Q-true', q_true, props=['C02', 'C04', 'C09'])
c.ensures('Q-false', q_false, props=['C04', 'C08', 'C05'])
c.ensures('Q-shutdown', q_shutdown, props=['C13'])
c.ensures('Q-abort-cancel-at-the-deciding-instant', q_cancel_instant, props=['C05', 'C08', 'C09'])
c.raises('CancelledError', 'Q-clean', q_clean, props=['C11'])


# ---------------------------------------------------------------- diagnosis accessors (C04)
def _flag_accessor(name, fn, kind='bool'):
    cc = contract('PureScheduler.' + name, F).param('self').returns(kind)
    cc.for_props('C04', 'C08')
    cc.pure = lambda c_: V(kind, fn(c_.cur, c_.a.self))
    cc.ensures('result-is-the-stated-function-of-the-recorded-cause', lambda c_: c_.result == fn(c_.pre, c_.a.self))
    return cc


_flag_accessor('failed_time_out', lambda st, S: st.f('_failed_timeout', S) != FALSE)
_flag_accessor('failed_critical', lambda st, S: st.f('_failed_critical', S), kind='ref')

STR_FINE = L.str_const('FINE')
cc = contract('PureScheduler.why', F).param('self').returns('str')
cc.for_props('C04')
cc.requires('recorded-flags-are-well-formed', lambda c_: And(
    Or(c_.pre.f('_failed_critical', c_.a.self) == TRUE, c_.pre.f('_failed_critical', c_.a.self) == FALSE)))
cc.ensures('FINE-iff-no-cause-recorded', lambda c_: (c_.result == STR_FINE) == And(
    c_.pre.f('_failed_timeout', c_.a.self) == FALSE, c_.pre.f('_failed_critical', c_.a.self) == FALSE))
