"""
Contracts of the life-cycle accessors of AbstractJob (property C14) and the small helpers the
run-time contracts build on.  asyncio.Task private attributes (_state, _exception, _result) are read by
the package itself (job.py); their meaning is assumption A-PRIVATE / E3 of DESIGN.md 4.3.
"""
import z3
from pyvc import logic as L
from pyvc.contracts_api import contract
from pyvc.logic import Ref, NONE, TRUE, FALSE, truthy, isa, fresh, V
from .spec import *

F = 'job.py'

S_FINISHED = L.box_str(L.str_const('FINISHED'))
S_PENDING = L.box_str(L.str_const('PENDING'))
S_CANCELLED = L.box_str(L.str_const('CANCELLED'))


def state_consts_facts():
    out = []
    for s in ('FINISHED', 'PENDING', 'CANCELLED'):
        out += L.box_str_facts(L.str_const(s))
    out.append(z3.Distinct(S_FINISHED, S_PENDING, S_CANCELLED))
    out += [S_FINISHED != NONE, S_PENDING != NONE, S_CANCELLED != NONE]
    return out


def task_of(st, j):
    return st.f('_task', j)


def tstate(st, t):
    return st.f('_state', t)


def finished(st, t):
    return tstate(st, t) == S_FINISHED


def done_pred(st, j):
    """is_done() of job j in state st"""
    return And(task_of(st, j) != NONE, finished(st, task_of(st, j)))


def _accessor(name, result_kind, fn, props=('C14',), doc=''):
    c = contract('AbstractJob.' + name, F).param('self').returns(result_kind)
    c.for_props(*props)
    c.requires('state-constants', lambda c: And(state_consts_facts()))
    c.pure = lambda cc: V(result_kind, fn(cc.cur, cc.a.self))
    c.ensures('result-is-the-stated-function-of-the-task', lambda cc: cc.result == fn(cc.pre, cc.a.self))
    return c


_accessor('is_idle', 'bool', lambda st, j: task_of(st, j) == NONE)
_accessor('is_scheduled', 'bool', lambda st, j: task_of(st, j) != NONE)
_accessor('is_running', 'bool', lambda st, j: st.f('_running', j))
_accessor('is_done', 'bool', done_pred, props=('C14', 'C01', 'C06'))
_accessor('is_critical', 'bool', lambda st, j: st.f('critical', j), props=('C14', 'C04'))
_accessor('raised_exception', 'ref',
          lambda st, j: If(task_of(st, j) == NONE, NONE, st.f('_exception', task_of(st, j))),
          props=('C14', 'C06', 'C04'))

# result(): the object the body returned, or ValueError when the job is not done
c = contract('AbstractJob.result', F).param('self').returns('ref')
c.for_props('C14')
c.requires('state-constants', lambda c: And(state_consts_facts()))
c.ensures('returns-the-task-result-and-only-when-done', lambda c: And(
    done_pred(c.pre, c.a.self), c.result == c.pre.f('_result', task_of(c.pre, c.a.self))))
c.raises('ValueError', 'raises-only-when-not-done', lambda c: Not(done_pred(c.pre, c.a.self)))
