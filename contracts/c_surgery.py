"""
Contracts of the graph-surgery operations (property C18): relational postconditions on (jobs, required).
"""
import z3
from pyvc import logic as L
from pyvc.contracts_api import contract
from pyvc.logic import Ref, NONE, TRUE, FALSE, truthy, card, isa, fresh, V
from .spec import *

F = 'purescheduler.py'


# ---------------------------------------------------------------- bypass_and_remove
def UP(c, x):
    """x is required by the removed job"""
    return E(c.pre, c.a.job, x)


def DS(c, d):
    """d is a member that requires the removed job"""
    return And(member(c.pre, c.a.self, d), E(c.pre, d, c.a.job))


def new_req(c, d, x, upto=None, also=None, minus_job=True):
    """x in the new requirement set of downstream d"""
    up = UP(c, x) if upto is None else And(UP(c, x), Select(upto, x))
    base = Or(E(c.pre, d, x), And(up, x != d))
    if also is not None:
        base = Or(base, also)
    return And(base, x != c.a.job) if minus_job else base


c = contract('PureScheduler.bypass_and_remove', F).param('self').param('job').returns('none')
c.for_props('C18')
c.requires('self-is-scheduler', lambda c: is_sched(c.a.self))
c.requires('job-is-a-job', lambda c: isa['AbstractJob'](c.a.job))
c.requires('closed', lambda c: closed(c.pre, c.a.self))
c.requires('job-does-not-require-itself', lambda c: Not(E(c.pre, c.a.job, c.a.job)))
c.requires_schema('acyclic', lambda c, U: acyclic_at(c.pre, c.a.self, U), lambda: (fresh('U', L.SetV),))
c.modifies('$elems', '$alive', '$llen', '$lat', '$setrole')


def _bp_members(c):
    x = q()
    S = c.a.self
    return ForAll([x], member(c.cur, S, x) == And(member(c.pre, S, x), x != c.a.job), patterns=[member(c.cur, S, x)])


def _bp_requirements(c):
    d, x = q(2)
    return ForAll([d, x], Implies(member(c.pre, c.a.self, d),
                                  E(c.cur, d, x) == If(E(c.pre, d, c.a.job), new_req(c, d, x), E(c.pre, d, x))),
                  patterns=[E(c.cur, d, x)])


def _bp_frame(c):
    s, d = q(2)
    mine = Or(s == c.pre.f('jobs', c.a.self), Exists([d], And(DS(c, d), s == c.pre.f('required', d))))
    return ForAll([s], Implies(And(c.pre.alive(s), Not(mine)), c.cur.elems(s) == c.pre.elems(s)),
                  patterns=[c.cur.elems(s)])


c.ensures('removes-exactly-the-job', _bp_members, props=['C18'])
c.ensures('relinks-every-path-through-the-job-and-nothing-else', _bp_requirements, props=['C18'])
c.ensures('frame', _bp_frame, props=['C18'])
c.ensures('stays-closed', lambda c: closed(c.cur, c.a.self), props=['C18'])
c.raises('ValueError', 'only-if-the-job-is-not-a-member', lambda c: Not(member(c.pre, c.a.self, c.a.job)), props=['C18'])
c.raises('ValueError', 'nothing-changed', lambda c: c.cur.H('$elems') == c.pre.H('$elems'), props=['C18'])


def _bp_common(c, st):
    """what all three loops keep: the local set of downstreams, the untouched sets"""
    S = c.a.self
    ds = st.env['downstreams'].t
    d, s = q(2)
    return [
        ('downstreams-are-the-members-requiring-the-job',
         And(ForAll([d], st.mem(ds, d) == DS(c, d), patterns=[st.mem(ds, d)]),
             Not(c.pre.alive(ds)), st.alive(ds))),
        ('frame', ForAll([s], Implies(And(c.pre.alive(s), Not(Exists([d], And(DS(c, d), s == c.pre.f('required', d))))),
                                      st.elems(s) == c.pre.elems(s)), patterns=[st.elems(s)])),
    ]


def _bp_l0(c):
    st = c.cur
    d, x = q(2)
    return _bp_common(c, st) + [
        ('downstreams-got-the-visited-upstreams', ForAll([d, x], Implies(
            DS(c, d), E(st, d, x) == new_req(c, d, x, upto=c.visited, minus_job=False)), patterns=[E(st, d, x)])),
    ]


def _bp_l1(c):
    st = c.cur
    o = c.outer[-1]
    d, x = q(2)
    return _bp_common(c, st) + [
        ('visited-downstreams-got-this-upstream-too', ForAll([d, x], Implies(
            DS(c, d), E(st, d, x) == new_req(c, d, x, upto=o['visited'], minus_job=False,
                                            also=And(Select(c.visited, d), x == o['elem'], x != d))),
            patterns=[E(st, d, x)])),
    ]


def _bp_l2(c):
    st = c.cur
    d, x = q(2)
    return _bp_common(c, st) + [
        ('visited-downstreams-lost-the-job', ForAll([d, x], Implies(
            DS(c, d), E(st, d, x) == And(new_req(c, d, x, minus_job=False),
                                        Or(Not(Select(c.visited, d)), x != c.a.job))), patterns=[E(st, d, x)])),
    ]


def _cl(fn, labels, key):
    return [(lab, (lambda lab: lambda c: dict(c.memo(key, lambda: fn(c)))[lab])(lab)) for lab in labels]


_BC = ['downstreams-are-the-members-requiring-the-job', 'frame']
c.loop(0, inv=_cl(_bp_l0, _BC + ['downstreams-got-the-visited-upstreams'], 'b0'))
c.loop(1, inv=_cl(_bp_l1, _BC + ['visited-downstreams-got-this-upstream-too'], 'b1'))
c.loop(2, inv=_cl(_bp_l2, _BC + ['visited-downstreams-lost-the-job'], 'b2'))


# ---- acyclicity is preserved (DESIGN 5.2): a self-supporting set of the new graph, extended by the removed
# job when one of its supporting edges is a re-linked one, is self-supporting in the old graph
def _U1(c):
    return c.skolem('U1', lambda: fresh('U1', L.SetV))


def _w1(c):
    return c.skolem('w1', lambda: z3.Function(L.fresh_name('w1'), Ref, Ref))


def _bp_acyclic(c):
    S, v = c.a.self, c.a.job
    if c.mode != 'prove':
        cur = c.cur
        c.cur.g['acyclic-schema'] = lambda U, w: Not(self_supporting(cur, S, U, w))
        return z3.BoolVal(True)
    U1, w1 = _U1(c), _w1(c)
    d = q()
    relinked = lambda d_: And(Select(U1, d_), DS(c, d_), Not(E(c.pre, d_, w1(d_))))
    U0 = _U0(c)
    c.use_schema('acyclic', U0)
    return Not(self_supporting(c.cur, S, U1, w1))


def _U0(c):
    S, v = c.a.self, c.a.job
    U1, w1 = _U1(c), _w1(c)
    d = q()
    relinked = lambda d_: And(Select(U1, d_), DS(c, d_), Not(E(c.pre, d_, w1(d_))))
    return c.memo('U0', lambda: c.setdef(lambda x: Or(Select(U1, x), And(x == v, Exists([d], relinked(d)))), 'U0',
                                         triggers=lambda x: [Select(U1, x)]))


def _unused(c):
    return None


BP = __import__('pyvc.contracts_api', fromlist=['REG']).REG.get('PureScheduler.bypass_and_remove')
BP.ensures('stays-acyclic', _bp_acyclic, props=['C18'])


def _bp_post_hints(c):
    if c.exc is not None or c.mode != 'prove':
        return []
    S, v = c.a.self, c.a.job
    U1, w1 = _U1(c), _w1(c)
    A = self_supporting(c.cur, S, U1, w1)
    u, d, r = q(3)
    relinked = lambda d_: And(Select(U1, d_), DS(c, d_), Not(E(c.pre, d_, w1(d_))))
    return [
        L.Lemma('a-supporting-edge-is-old-or-goes-through-the-job', Implies(A, ForAll([u], Implies(
            Select(U1, u), And(member(c.pre, S, u), u != v, Select(U1, w1(u)),
                               Or(E(c.pre, u, w1(u)), And(DS(c, u), E(c.pre, v, w1(u)), Not(E(c.pre, u, w1(u))))))),
            patterns=[Select(U1, u)]))),
        L.Lemma('old-graph-supports-the-members-of-the-set', Implies(A, ForAll([u], Implies(
            Select(U1, u), Exists([r], And(Or(Select(U1, r), And(r == v, Exists([d], relinked(d)))), E(c.pre, u, r)))),
            patterns=[Select(U1, u)]))),
        L.Lemma('old-graph-supports-the-job-when-it-is-added', Implies(And(A, Exists([d], relinked(d))),
                                                                      Exists([r], And(Select(U1, r), E(c.pre, v, r))))),
    ] + [L.Lemma('extended-set-is-self-supporting-in-the-old-graph.%d' % (i + 1), Implies(A, part))
         for i, part in enumerate(self_supporting(c.pre, S, _U0(c)).children())]


BP.post_hints = _bp_post_hints


# ---------------------------------------------------------------- keep_only
from .c_sanitize import wf_top, below, frame_links, Sane    # noqa: E402


def wf_after(c, keep):
    """the tree obtained by restricting the members of self to `keep` is admissible (what sanitize() needs):
    stated on the entry state with the restricted membership"""
    st, S = c.pre, c.a.self
    m, m2, x = q(3)
    mem = lambda y: And(member(st, S, y), keep(y))
    return And(
        is_sched(S),
        ForAll([m], Implies(mem(m), And(isa['AbstractJob'](m), st.alive(m), m != S, height(m) < height(S),
                                        height(m) >= 0, Not(under(S, m)),
                                        Implies(isa['PureScheduler'](m), wf_tree(st, m)))),
               patterns=[member(st, S, m)]),
        ForAll([m, x], Implies(And(mem(m), under(x, m)), And(Not(mem(x)), x != S)),
               patterns=[z3.MultiPattern(member(st, S, m), under(x, m))]),
        ForAll([m, m2, x], Implies(And(mem(m), mem(m2), m != m2), Not(And(under(x, m), under(x, m2)))),
               patterns=[z3.MultiPattern(member(st, S, m), under(x, m2))]))


c = contract('PureScheduler.keep_only', F).param('self').param('remains', 'set').returns('none')
c.for_props('C18')
c.requires('tree-axioms', lambda c: And(tree_axioms()))
c.requires('admissible-tree', lambda c: wf_after(c, lambda y: c.pre.mem(c.a.remains, y)))
c.requires('remains-is-not-a-container-of-the-tree', lambda c: c.pre.f('$setrole', c.a.remains) == 0)
c.requires_schema('acyclic', lambda c, U: acyclic_at(c.pre, c.a.self, U), lambda: (fresh('U', L.SetV),))
c.modifies('$elems', '$alive', '$setrole')


def _ko_members(c):
    x = q()
    S = c.a.self
    return ForAll([x], member(c.cur, S, x) == And(member(c.pre, S, x), c.pre.mem(c.a.remains, x)),
                  patterns=[member(c.cur, S, x)])


def _ko_requirements(c):
    j, x = q(2)
    S = c.a.self
    return ForAll([j, x], Implies(member(c.cur, S, j),
                                  And(E(c.cur, j, x) == And(E(c.pre, j, x), member(c.cur, S, x)),
                                      SUCC(c.cur, j, x) == And(SUCC(c.pre, j, x), member(c.cur, S, x)))),
                  patterns=[E(c.cur, j, x), SUCC(c.cur, j, x)])


def _ko_acyclic(c):
    S = c.a.self
    if c.mode != 'prove':
        return z3.BoolVal(True)
    U1, w1 = _U1(c), _w1(c)
    c.use_schema('acyclic', U1)
    return Not(self_supporting(c.cur, S, U1, w1))


c.ensures('keeps-exactly-the-members-in-remains', _ko_members, props=['C18'])
c.ensures('keeps-exactly-the-requirements-among-kept-jobs', _ko_requirements, props=['C18'])
c.ensures('stays-closed', lambda c: closed(c.cur, c.a.self), props=['C18'])
c.ensures('stays-acyclic', _ko_acyclic, props=['C18'])
c.ensures('dropped-jobs-and-the-rest-of-the-heap-untouched', lambda c: (lambda s: ForAll([s], Implies(
    And(c.pre.alive(s), s != c.pre.f('jobs', c.a.self),
        Not(And(below(c.cur, c.a.self, c.pre.f('$setowner', s)),
                Or(c.pre.f('$setrole', s) == 1, c.pre.f('$setrole', s) == 2)))),
    c.cur.elems(s) == c.pre.elems(s)), patterns=[c.cur.elems(s)]))(q()), props=['C18'])


# ---------------------------------------------------------------- keep_only_between
c = contract('PureScheduler.keep_only_between', F).param('self') \
    .param('starts', 'kw:set', None).param('ends', 'kw:set', None) \
    .param('keep_starts', 'kw:bool', True).param('keep_ends', 'kw:bool', True).returns('none')
c.for_props('C18')


def _given(c, name):
    """the jobs named by the optional parameter `name` (None means none)"""
    a = c.args[name]
    return lambda x: And(a != NONE, c.pre.mem(a, x))


def _kob_new_members(c, st):
    """membership after the operation, in terms of the two closure results exported by the callees (or all the
    members when the corresponding parameter names nothing)"""
    S = c.a.self
    g = st.g
    st_, en_ = _given(c, 'starts'), _given(c, 'ends')
    has_s = Exists([q()], z3.BoolVal(True))     # placeholder, replaced below

    def pred(x):
        some_start = (lambda y: Exists([y], st_(y)))(q())
        some_end = (lambda y: Exists([y], en_(y)))(q())
        down = st.mem(g['$downstream'], x) if '$downstream' in g else member(c.pre, S, x)
        up = st.mem(g['$upstream'], x) if '$upstream' in g else member(c.pre, S, x)
        return Or(And(down, up), And(c.a.keep_starts, st_(x)), And(c.a.keep_ends, en_(x)))
    return pred


c.requires('tree-axioms', lambda c: And(tree_axioms()))
c.requires('self-is-scheduler', lambda c: is_sched(c.a.self))
c.requires('closed', lambda c: closed(c.pre, c.a.self))
c.requires('starts-and-ends-are-members', lambda c: (lambda x: ForAll([x], Implies(
    Or(_given(c, 'starts')(x), _given(c, 'ends')(x)), member(c.pre, c.a.self, x)),
    patterns=[member(c.pre, c.a.self, x)]))(q()))
c.requires('parameters-are-local-sets', lambda c: And(
    Or(c.a.starts == NONE, And(isa['set'](c.a.starts), c.pre.f('$setrole', c.a.starts) == 0)),
    Or(c.a.ends == NONE, And(isa['set'](c.a.ends), c.pre.f('$setrole', c.a.ends) == 0))))
c.requires('admissible-tree', lambda c: wf_top(c.pre, c.a.self))
c.requires_schema('acyclic', lambda c, U: acyclic_at(c.pre, c.a.self, U), lambda: (fresh('U', L.SetV),))
c.modifies('$elems', '$alive', '$setrole', '$setowner', '$llen', '$lat', 'jobs', '_s_successors')


def _kob_members(c):
    x = q()
    S = c.a.self
    pred = _kob_new_members(c, c.cur)
    return ForAll([x], member(c.cur, S, x) == pred(x), patterns=[member(c.cur, S, x)])


def _kob_subset(c):
    x = q()
    S = c.a.self
    return ForAll([x], Implies(member(c.cur, S, x), member(c.pre, S, x)), patterns=[member(c.cur, S, x)])


def _kob_requirements(c):
    j, x = q(2)
    S = c.a.self
    return ForAll([j, x], Implies(member(c.cur, S, j), E(c.cur, j, x) == And(E(c.pre, j, x), member(c.cur, S, x))),
                  patterns=[E(c.cur, j, x)])


c.ensures('keeps-exactly-the-documented-jobs', _kob_members, props=['C18'])
c.ensures('keeps-only-members', _kob_subset, props=['C18'])
c.ensures('keeps-exactly-the-requirements-among-kept-jobs', _kob_requirements, props=['C18'])
c.ensures('stays-closed', lambda c: closed(c.cur, c.a.self), props=['C18'])
c.ensures('stays-acyclic', _ko_acyclic, props=['C18'])
c.ensures('member-set-is-a-fresh-object', lambda c: Not(c.pre.alive(c.cur.f('jobs', c.a.self))), props=['C18'])


def _kob_post_hints(c):
    if c.mode != 'prove' or c.exc is not None:
        return []
    call = c.cur.g.get('sanitize-call')
    if call is None:
        return []
    mid = call['pre']
    S = c.a.self
    x = q()
    out = [L.Lemma('sanitize-leaves-the-member-set-alone',
                   ForAll([x], member(c.cur, S, x) == member(mid, S, x), patterns=[member(c.cur, S, x)]))]
    for key in ('$downstream', '$upstream'):
        if key in c.cur.g:
            r = c.cur.g[key]
            out.append(L.Lemma('closure-result-untouched[%s]' % key[1:],
                               ForAll([x], c.cur.mem(r, x) == mid.mem(r, x), patterns=[c.cur.mem(r, x)])))
    pred = _kob_new_members(c, mid)
    out.append(L.Lemma('members-before-sanitize-are-the-documented-jobs',
                       ForAll([x], member(mid, S, x) == pred(x), patterns=[member(mid, S, x)])))
    return out


c.post_hints = _kob_post_hints
