"""
Contracts of the graph-surgery operations (property C18): relational postconditions on (jobs, required).
"""
import z3
from pyvc import logic as L
from pyvc.contracts_api import contract
from pyvc.logic import Ref, NONE, TRUE, FALSE, truthy, card, isa, fresh, V
from .spec import *

F = 'purescheduler.py'


# ---------------------------------------------------------------- bypass_and_remove
def UP(c, x):
    """x is required by the removed job"""
    return E(c.pre, c.a.job, x)


def DS(c, d):
    """d is a member that requires the removed job"""
    return And(member(c.pre, c.a.self, d), E(c.pre, d, c.a.job))


def new_req(c, d, x, upto=None, also=None, minus_job=True):
    """x in the new requirement set of downstream d"""
    up = UP(c, x) if upto is None else And(UP(c, x), Select(upto, x))
    base = Or(E(c.pre, d, x), And(up, x != d))
    if also is not None:
        base = Or(base, also)
    return And(base, x != c.a.job) if minus_job else base


c = contract('PureScheduler.bypass_and_remove', F).param('self').param('job').returns('none')
c.for_props('C18')
c.requires('self-is-scheduler', lambda c: is_sched(c.a.self))
c.requires('job-is-a-job', lambda c: isa['AbstractJob'](c.a.job))
c.requires('closed', lambda c: closed(c.pre, c.a.self))
c.requires('job-does-not-require-itself', lambda c: Not(E(c.pre, c.a.job, c.a.job)))
c.requires_schema('acyclic', lambda c, U: acyclic_at(c.pre, c.a.self, U), lambda: (fresh('U', L.SetV),))
c.modifies('$elems', '$alive', '$llen', '$lat', '$setrole')


def _bp_members(c):
    x = q()
    S = c.a.self
    return ForAll([x], member(c.cur, S, x) == And(member(c.pre, S, x), x != c.a.job), patterns=[member(c.cur, S, x)])


def _bp_requirements(c):
    d, x = q(2)
    return ForAll([d, x], Implies(member(c.pre, c.a.self, d),
                                  E(c.cur, d, x) == If(E(c.pre, d, c.a.job), new_req(c, d, x), E(c.pre, d, x))),
                  patterns=[E(c.cur, d, x)])


def _bp_frame(c):
    s, d = q(2)
    mine = Or(s == c.pre.f('jobs', c.a.self), Exists([d], And(DS(c, d), s == c.pre.f('required', d))))
    return ForAll([s], Implies(And(c.pre.alive(s), Not(mine)), c.cur.elems(s) == c.pre.elems(s)),
                  patterns=[c.cur.elems(s)])


c.ensures('removes-exactly-the-job', _bp_members, props=['C18'])
c.ensures('relinks-every-path-through-the-job-and-nothing-else', _bp_requirements, props=['C18'])
c.ensures('frame', _bp_frame, props=['C18'])
c.ensures('stays-closed', lambda c: closed(c.cur, c.a.self), props=['C18'])
c.raises('ValueError', 'only-if-the-job-is-not-a-member', lambda c: Not(member(c.pre, c.a.self, c.a.job)), props=['C18'])
c.raises('ValueError', 'nothing-changed', lambda c: c.cur.H('$elems') == c.pre.H('$elems'), props=['C18'])


def _bp_common(c, st):
    """what all three loops keep: the local set of downstreams, the untouched sets"""
    S = c.a.self
    ds = st.env['downstreams'].t
    d, s = q(2)
    return [
        ('downstreams-are-the-members-requiring-the-job',
         And(ForAll([d], st.mem(ds, d) == DS(c, d), patterns=[st.mem(ds, d)]),
             Not(c.pre.alive(ds)), st.alive(ds))),
        ('frame', ForAll([s], Implies(And(c.pre.alive(s), Not(Exists([d], And(DS(c, d), s == c.pre.f('required', d))))),
                                      st.elems(s) == c.pre.elems(s)), patterns=[st.elems(s)])),
    ]


def _bp_l0(c):
    st = c.cur
    d, x = q(2)
    return _bp_common(c, st) + [
        ('downstreams-got-the-visited-upstreams', ForAll([d, x], Implies(
            DS(c, d), E(st, d, x) == new_req(c, d, x, upto=c.visited, minus_job=False)), patterns=[E(st, d, x)])),
    ]


def _bp_l1(c):
    st = c.cur
    o = c.outer[-1]
    d, x = q(2)
    return _bp_common(c, st) + [
        ('visited-downstreams-got-this-upstream-too', ForAll([d, x], Implies(
            DS(c, d), E(st, d, x) == new_req(c, d, x, upto=o['visited'], minus_job=False,
                                            also=And(Select(c.visited, d), x == o['elem'], x != d))),
            patterns=[E(st, d, x)])),
    ]


def _bp_l2(c):
    st = c.cur
    d, x = q(2)
    return _bp_common(c, st) + [
        ('visited-downstreams-lost-the-job', ForAll([d, x], Implies(
            DS(c, d), E(st, d, x) == And(new_req(c, d, x, minus_job=False),
                                        Or(Not(Select(c.visited, d)), x != c.a.job))), patterns=[E(st, d, x)])),
    ]


def _cl(fn, labels, key):
    return [(lab, (lambda lab: lambda c: dict(c.memo(key, lambda: fn(c)))[lab])(lab)) for lab in labels]


_BC = ['downstreams-are-the-members-requiring-the-job', 'frame']
c.loop(0, inv=_cl(_bp_l0, _BC + ['downstreams-got-the-visited-upstreams'], 'b0'))
c.loop(1, inv=_cl(_bp_l1, _BC + ['visited-downstreams-got-this-upstream-too'], 'b1'))
c.loop(2, inv=_cl(_bp_l2, _BC + ['visited-downstreams-lost-the-job'], 'b2'))


# ---- acyclicity is preserved (DESIGN 5.2): a self-supporting set of the new graph, extended by the removed
# job when one of its supporting edges is a re-linked one, is self-supporting in the old graph
def _U1(c):
    return c.skolem('U1', lambda: fresh('U1', L.SetV))


def _w1(c):
    return c.skolem('w1', lambda: z3.Function(L.fresh_name('w1'), Ref, Ref))


def _bp_acyclic(c):
    S, v = c.a.self, c.a.job
    if c.mode != 'prove':
        cur = c.cur
        c.cur.g['acyclic-schema'] = lambda U, w: Not(self_supporting(cur, S, U, w))
        return z3.BoolVal(True)
    U1, w1 = _U1(c), _w1(c)
    d = q()
    relinked = lambda d_: And(Select(U1, d_), DS(c, d_), Not(E(c.pre, d_, w1(d_))))
    U0 = _U0(c)
    c.use_schema('acyclic', U0)
    return Not(self_supporting(c.cur, S, U1, w1))


def _U0(c):
    S, v = c.a.self, c.a.job
    U1, w1 = _U1(c), _w1(c)
    d = q()
    relinked = lambda d_: And(Select(U1, d_), DS(c, d_), Not(E(c.pre, d_, w1(d_))))
    return c.memo('U0', lambda: c.setdef(lambda x: Or(Select(U1, x), And(x == v, Exists([d], relinked(d)))), 'U0',
                                         triggers=lambda x: [Select(U1, x)]))


def _unused(c):
    return None


BP = __import__('pyvc.contracts_api', fromlist=['REG']).REG.get('PureScheduler.bypass_and_remove')
BP.ensures('stays-acyclic', _bp_acyclic, props=['C18'])


def _bp_post_hints(c):
    if c.exc is not None or c.mode != 'prove':
        return []
    S, v = c.a.self, c.a.job
    U1, w1 = _U1(c), _w1(c)
    A = self_supporting(c.cur, S, U1, w1)
    u, d, r = q(3)
    relinked = lambda d_: And(Select(U1, d_), DS(c, d_), Not(E(c.pre, d_, w1(d_))))
    return [
        L.Lemma('a-supporting-edge-is-old-or-goes-through-the-job', Implies(A, ForAll([u], Implies(
            Select(U1, u), And(member(c.pre, S, u), u != v, Select(U1, w1(u)),
                               Or(E(c.pre, u, w1(u)), And(DS(c, u), E(c.pre, v, w1(u)), Not(E(c.pre, u, w1(u))))))),
            patterns=[Select(U1, u)]))),
        L.Lemma('old-graph-supports-the-members-of-the-set', Implies(A, ForAll([u], Implies(
            Select(U1, u), Exists([r], And(Or(Select(U1, r), And(r == v, Exists([d], relinked(d)))), E(c.pre, u, r)))),
            patterns=[Select(U1, u)]))),
        L.Lemma('old-graph-supports-the-job-when-it-is-added', Implies(And(A, Exists([d], relinked(d))),
                                                                      Exists([r], And(Select(U1, r), E(c.pre, v, r))))),
    ] + [L.Lemma('extended-set-is-self-supporting-in-the-old-graph.%d' % (i + 1), Implies(A, part))
         for i, part in enumerate(self_supporting(c.pre, S, _U0(c)).children())]


BP.post_hints = _bp_post_hints
