"""
replay/vloop.py -- deterministic virtual-time event loop and scripted jobs for replaying
scenarios on the REAL asynciojobs code (DESIGN.md 10.3).

* VLoop: asyncio.SelectorEventLoop whose clock is virtual and jumps to the next timer when
  nothing is ready; `time.time` as seen by asynciojobs.purescheduler is the same clock (A-CLOCK
  made true for the replay).
* SJob / LSched: jobs whose bodies are scripted (duration, outcome, reaction to cancellation,
  shutdown duration) and which log (tick, vt, event, name) into a shared trace.
"""
import asyncio
import heapq
import zlib
import types

import asynciojobs
import asynciojobs.purescheduler as _ps
from asynciojobs import AbstractJob, PureScheduler, Scheduler


class Hang(Exception):
    pass


class VLoop(asyncio.SelectorEventLoop):
    def __init__(self):
        super().__init__()
        self._vt = 0.0
        self.steps = 0
        self.max_steps = 200000
        self.set_exception_handler(lambda loop, context: None)

    def time(self):
        return self._vt

    def _run_once(self):
        self.steps += 1
        if self.steps > self.max_steps:
            raise Hang('step budget exhausted (livelock?)')
        while self._scheduled and self._scheduled[0]._cancelled:
            h = heapq.heappop(self._scheduled)
            h._scheduled = False
            self._timer_cancelled_count = max(0, self._timer_cancelled_count - 1)
        if not self._ready:
            if self._scheduled:
                when = self._scheduled[0]._when
                if when > self._vt:
                    self._vt = when
            elif not self._stopping:
                raise Hang('nothing ready and nothing scheduled: the run is wedged')
        super()._run_once()


class Trace:
    def __init__(self, loop):
        self.loop = loop
        self.events = []       # (tick, vt, event, name)
        self.tick = 0

    def log(self, event, name, **kw):
        self.tick += 1
        self.events.append((self.tick, self.loop.time(), event, name, kw))

    def of(self, name, event=None):
        return [e for e in self.events if e[3] == name and (event is None or e[2] == event)]


class Boom(Exception):
    pass


class Halt(BaseException):
    """an application-level signal that does not derive from Exception (asyncio stores it in the task like any other;
    only KeyboardInterrupt and SystemExit are treated apart)"""


# set iteration order: hashes of the scripted objects are crc32(name + SALT); a scenario may carry a `salt`
# so that different iteration orders of the same tree are explored (and reproduced)
SALT = ''


class SJob(AbstractJob):
    """scripted atomic job"""

    def __init__(self, name, trace, duration=1.0, outcome='ret', cancel_delay=0.0,
                 shutdown_duration=0.0, yields=0, **kw):
        self.yields = yields                # extra event-loop iterations before the body ends
        self.name = name
        self.trace = trace
        self.duration = duration            # None: never ends
        self.outcome = outcome              # 'ret' | 'raise'
        self.cancel_delay = cancel_delay
        self.shutdown_duration = shutdown_duration
        # some scripted failures carry no message at all (str(exc) == ''), like a bare `raise ValueError`
        self.exc = Boom() if kw.pop('empty_exc', False) else Boom(name)
        if kw.pop('base_exc', False):
            self.exc = Halt(name)
        self.inner = kw.pop('inner', None)
        self.retval = ('value-of', name)
        super().__init__(label=name, **kw)

    def __repr__(self):
        return 'SJob(%s)' % self.name

    def __hash__(self):
        # deterministic set iteration order across two builds of one scenario (metamorphic pairs)
        return zlib.crc32((self.name + SALT).encode())

    def __eq__(self, other):
        return self is other

    async def co_run(self):
        if self.inner:
            return await self._co_run_inner()
        self.trace.log('enter', self.name)
        try:
            if self.duration is None:
                await asyncio.sleep(10 ** 9)
            else:
                await asyncio.sleep(self.duration)
                for _ in range(self.yields):
                    await asyncio.sleep(0)
        except asyncio.CancelledError:
            self.trace.log('cancelled', self.name)
            if self.cancel_delay:
                await asyncio.sleep(self.cancel_delay)
            self.trace.log('cancel-done', self.name)
            raise
        if self.outcome == 'cancel-self':
            # the body ends in the cancelled state by itself (it awaited something that somebody else cancelled):
            # nobody asked the scheduler for it, and for the scheduler the job is over
            self.trace.log('cancelled', self.name)
            self.trace.log('cancel-done', self.name)
            raise asyncio.CancelledError()
        if self.outcome == 'raise':
            self.trace.log('exit-raise', self.name)
            raise self.exc
        self.trace.log('exit-ret', self.name)
        return self.retval

    async def _co_run_inner(self):
        """a body with a timeout of its own (asyncio.timeout): the inner deadline d1 fires, the body cleans up for a while
        (its task then has a cancellation in flight: Task.cancelling() > 0), swallows the TimeoutError and goes on"""
        d1, cleanup, fallback = self.inner
        self.trace.log('enter', self.name)
        try:
            try:
                async with asyncio.timeout(d1):
                    try:
                        await asyncio.sleep(10 ** 6)
                    finally:
                        await asyncio.sleep(cleanup)
            except TimeoutError:
                pass
            await asyncio.sleep(fallback)
        except asyncio.CancelledError:
            self.trace.log('cancelled', self.name)
            self.trace.log('cancel-done', self.name)
            raise
        self.trace.log('exit-ret', self.name)
        return self.retval

    async def co_shutdown(self):
        self.trace.log('shutdown', self.name)
        try:
            if self.shutdown_duration:
                await asyncio.sleep(self.shutdown_duration)
        except asyncio.CancelledError:
            self.trace.log('shutdown-cancelled', self.name)
            raise
        self.trace.log('shutdown-done', self.name)


def make_logging_scheduler(base):
    class LSched(base):
        """scheduler that logs the begin and end of its own run and of its shutdown broadcast"""

        def __init__(self, *a, name='S', trace=None, **kw):
            self.name = name
            self.trace = trace
            super().__init__(*a, **kw)

        def __repr__(self):
            return 'LSched(%s)' % self.name

        def __hash__(self):
            return zlib.crc32((self.name + SALT).encode())

        def __eq__(self, other):
            return self is other

        async def co_run(self):
            self.trace.log('enter', self.name)
            try:
                r = await super().co_run()
            except asyncio.CancelledError:
                self.trace.log('run-cancelled', self.name)
                raise
            except BaseException as exc:
                self.trace.log('exit-raise', self.name, exc=exc)
                raise
            self.trace.log('exit-ret', self.name, result=r)
            return r

        async def co_shutdown(self):
            self._sd_calls = getattr(self, '_sd_calls', 0) + 1
            k = self._sd_calls
            self.trace.log('shutdown', self.name, call=k)
            try:
                r = await super().co_shutdown()
            except asyncio.CancelledError:
                self.trace.log('shutdown-cancelled', self.name, call=k)
                raise
            except BaseException as exc:
                self.trace.log('shutdown-raised', self.name, call=k, exc=exc)
                raise
            self.trace.log('shutdown-done', self.name, result=r, call=k)
            return r
    return LSched


LScheduler = make_logging_scheduler(Scheduler)
LPureScheduler = make_logging_scheduler(PureScheduler)


class Built:
    """a scenario instantiated on the real classes"""

    def __init__(self):
        self.loop = None
        self.trace = None
        self.top = None
        self.objs = {}          # name -> object
        self.spec = {}          # name -> spec dict
        self.parent = {}        # name -> name of the owning scheduler
        self.members = {}       # scheduler name -> [member names]
        self.edges = {}         # scheduler name -> [(a requires b) names]
        self.watch = None


def build(spec, loop=None):
    """spec: {'name','type':'sched','pure':bool,'window','timeout','shutdown_timeout','critical',
              'forever','members':[spec...],'edges':[[i,j]...]}  (member i requires member j)
          | {'name','type':'job','duration','outcome','critical','forever','cancel_delay','shutdown_duration'}"""
    global SALT
    SALT = str(spec.get('salt', ''))
    b = Built()
    b.loop = loop or VLoop()
    b.trace = Trace(b.loop)

    def mk(sp, parent, top=False):
        name = sp['name']
        b.spec[name] = sp
        if parent is not None:
            b.parent[name] = parent
        if sp['type'] == 'job':
            o = SJob(name, b.trace, duration=sp.get('duration', 1.0), outcome=sp.get('outcome', 'ret'),
                     cancel_delay=sp.get('cancel_delay', 0.0),
                     shutdown_duration=sp.get('shutdown_duration', 0.0), yields=sp.get('yields', 0),
                     critical=sp.get('critical', False), forever=sp.get('forever', False),
                     empty_exc=sp.get('empty_exc', False), base_exc=sp.get('base_exc', False), inner=sp.get('inner'))
        else:
            mem = [mk(m, name) for m in sp.get('members', [])]
            b.members[name] = [m['name'] for m in sp.get('members', [])]
            b.edges[name] = []
            for i, j in sp.get('edges', []):
                mem[i].requires(mem[j])
                b.edges[name].append((sp['members'][i]['name'], sp['members'][j]['name']))
            kw = dict(jobs_window=sp.get('window'), timeout=sp.get('timeout'),
                      shutdown_timeout=sp.get('shutdown_timeout', 1), name=name, trace=b.trace)
            if spec.get('verbose'):
                kw['verbose'] = True      # messages only (stdout is captured): must not change what happens
            if spec.get('watch'):
                # one Watch shared by the whole tree, created when the tree is built (so older than every run);
                # documented as a display aid only: it must not change what happens
                if b.watch is None:
                    from asynciojobs import Watch
                    b.watch = Watch(show_elapsed=False)
                kw['watch'] = b.watch
            if sp.get('pure') and top:
                o = LPureScheduler(*mem, **kw)
            else:
                o = LScheduler(*mem, critical=sp.get('critical', False), forever=sp.get('forever', False), **kw)
        b.objs[name] = o
        return o
    b.top = mk(spec, None, top=True)
    return b


class RunResult:
    def __init__(self):
        self.verdict = None       # return value of co_run
        self.exc = None           # exception out of co_run
        self.hang = None
        self.end_vt = None
        self.leftover = []        # unfinished tasks after the run
        self.late_events = []     # trace events produced by letting the loop run on


def run(b, external_cancel_at=None, settle=50.0, again=0, on_second_run=lambda k: None):
    """run the top scheduler on the virtual loop; then let the loop run on for `settle` virtual
    seconds to observe late activity (C11)."""
    loop = b.loop
    rr = RunResult()
    saved_time = _ps.time
    _ps.time = types.SimpleNamespace(time=loop.time)
    asyncio.set_event_loop(loop)
    try:
        async def main():
            t = asyncio.ensure_future(b.top.co_run())
            if external_cancel_at is not None:
                loop.call_at(external_cancel_at, t.cancel)
            return await t
        def one_run():
            rr.verdict, rr.exc, rr.hang = None, None, None
            try:
                rr.verdict = loop.run_until_complete(main())
            except Hang as h:
                rr.hang = str(h)
            except asyncio.CancelledError as exc:
                rr.exc = exc
            except Exception as exc:
                rr.exc = exc
        one_run()
        for k in range(int(again)):
            if rr.hang is not None or [t for t in asyncio.all_tasks(loop) if not t.done()]:
                break
            # "any run of any scheduler": the same tree run again (PureScheduler._reset_tasks exists for that),
            # possibly edited in between; the oracles judge the last run only
            try:
                loop.run_until_complete(asyncio.sleep(5))
            except Hang:
                pass
            on_second_run(k)
            one_run()
        rr.end_vt = loop.time()
        n0 = len(b.trace.events)
        rr.leftover = [t for t in asyncio.all_tasks(loop) if not t.done()] if rr.hang is None else []
        if rr.hang is None:
            async def idle():
                await asyncio.sleep(settle)
            try:
                loop.run_until_complete(idle())
            except Hang:
                pass
            rr.late_events = b.trace.events[n0:]
    finally:
        _ps.time = saved_time
        try:
            for t in asyncio.all_tasks(loop):
                t.cancel()
            loop.run_until_complete(asyncio.sleep(0)) if not loop.is_closed() else None
        except BaseException:
            pass
        asyncio.set_event_loop(None)
        loop.close()
    return rr
