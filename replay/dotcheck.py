"""
replay/dotcheck.py -- bounded check of C20 on the REAL code: an independent parser for the subset of
the DOT language that dot_format() emits, a structural comparison of the parsed graph with the
scheduler tree, and a reader for the output of list().

Labelled `bounded` in the evidence; it decides C20 only over the trees it enumerates.
"""
import contextlib
import io
import itertools
import random
import re

from asynciojobs import AbstractJob, PureScheduler, Scheduler


class DotError(Exception):
    pass


# ------------------------------------------------------------------------------ tokenizer
_ID = re.compile(r'[A-Za-z_\u0080-￿][A-Za-z_0-9\u0080-￿]*|-?(?:\.[0-9]+|[0-9]+(?:\.[0-9]*)?)')


def tokenize(text):
    """DOT tokens: punctuation, '->', identifiers/numerals, double-quoted strings (\\" is the only
    escape that matters for termination).  Returns [(kind, value)], kind in 'p' | 'id' | 'q'."""
    out = []
    i, n = 0, len(text)
    while i < n:
        c = text[i]
        if c in ' \t\r\n':
            i += 1
        elif text.startswith('->', i):
            out.append(('p', '->'))
            i += 2
        elif c in '{}[];,=':
            out.append(('p', c))
            i += 1
        elif c == '"':
            j = i + 1
            buf = []
            while True:
                if j >= n:
                    raise DotError('unterminated string starting at offset %d' % i)
                if text[j] == '\\' and j + 1 < n:
                    # graphviz: \" is an escaped quote; any other backslash pair is kept verbatim
                    if text[j + 1] == '"':
                        buf.append('"')
                    else:
                        buf.append(text[j:j + 2])
                    j += 2
                elif text[j] == '"':
                    break
                else:
                    buf.append(text[j])
                    j += 1
            out.append(('q', ''.join(buf)))
            i = j + 1
        else:
            m = _ID.match(text, i)
            if not m or m.end() == i:
                raise DotError('illegal character %r at offset %d' % (c, i))
            out.append(('id', m.group(0)))
            i = m.end()
    return out


# ------------------------------------------------------------------------------ parser
class Graph:
    def __init__(self, name):
        self.name = name
        self.attrs = {}          # from `graph [...]` and `k=v;`
        self.nodes = []          # [(id, attrs)]   node statements, in order
        self.edges = []          # [(tail, head, attrs)]
        self.subs = []           # [Graph]
        self.mentioned = set()   # every node id mentioned in this body (not in sub-bodies)


class Parser:
    def __init__(self, toks):
        self.t = toks
        self.i = 0

    def peek(self):
        return self.t[self.i] if self.i < len(self.t) else ('eof', None)

    def take(self, kind=None, value=None):
        k, v = self.peek()
        if (kind is not None and k != kind) or (value is not None and v != value):
            raise DotError('expected %s %r, found %s %r at token %d' % (kind, value, k, v, self.i))
        self.i += 1
        return v

    def ident(self):
        k, v = self.peek()
        if k not in ('id', 'q'):
            raise DotError('expected an ID, found %s %r at token %d' % (k, v, self.i))
        self.i += 1
        return v

    def attr_list(self):
        attrs = {}
        while self.peek() == ('p', '['):
            self.take()
            while self.peek() != ('p', ']'):
                key = self.ident()
                self.take('p', '=')
                val = self.ident()
                if key in attrs:
                    raise DotError('attribute %r given twice' % key)
                attrs[key] = val
                if self.peek() in (('p', ','), ('p', ';')):
                    self.take()
            self.take('p', ']')
        return attrs

    def body(self, g):
        self.take('p', '{')
        while self.peek() != ('p', '}'):
            k, v = self.peek()
            if k == 'eof':
                raise DotError('unbalanced braces')
            if (k, v) == ('p', ';'):
                self.take()
                continue
            if k == 'id' and v.lower() == 'subgraph':
                self.take()
                sub = Graph(self.ident())
                self.body(sub)
                g.subs.append(sub)
                continue
            if k == 'id' and v.lower() in ('graph', 'node', 'edge') and self.t[self.i + 1] == ('p', '['):
                self.take()
                a = self.attr_list()
                if v.lower() == 'graph':
                    for kk, vv in a.items():
                        if kk in g.attrs:
                            raise DotError('graph attribute %r given twice' % kk)
                        g.attrs[kk] = vv
                continue
            first = self.ident()
            if self.peek() == ('p', '='):
                self.take()
                g.attrs[first] = self.ident()
            elif self.peek() == ('p', '->'):
                self.take()
                second = self.ident()
                if self.peek() == ('p', '->'):
                    raise DotError('edge chains are not expected')
                g.edges.append((first, second, self.attr_list()))
                g.mentioned.update((first, second))
            else:
                g.nodes.append((first, self.attr_list()))
                g.mentioned.add(first)
            if self.peek() == ('p', ';'):
                self.take()
        self.take('p', '}')


def parse(text):
    p = Parser(tokenize(text))
    kw = p.take('id')
    if kw.lower() != 'digraph':
        raise DotError('does not start with digraph')
    g = Graph(p.ident())
    p.body(g)
    if p.peek()[0] != 'eof':
        raise DotError('trailing tokens after the graph')
    return g


# ------------------------------------------------------------------------------ comparison with the tree
def is_sched(j):
    return isinstance(j, PureScheduler)


def atoms_under(s):
    out = []
    for j in s.jobs:
        if is_sched(j):
            out.extend(atoms_under(j))
        else:
            out.append(j)
    return out


def all_under(s):
    out = []
    for j in s.jobs:
        out.append(j)
        if is_sched(j):
            out.extend(all_under(j))
    return out


def style_errors(job, attrs, what):
    errs = []
    style = [x for x in attrs.get('style', '').split(',') if x]
    if is_sched(job):
        if 'rounded' in style:
            errs.append('%s: a scheduler is drawn with rounded corners' % what)
    elif 'rounded' not in style:
        errs.append('%s: an atomic job is not drawn rounded (style=%r)' % (what, attrs.get('style')))
    if bool(job.forever) != ('dashed' in style):
        errs.append('%s: forever=%r but style=%r' % (what, job.forever, attrs.get('style')))
    crit = bool(job.is_critical())
    if crit != (attrs.get('color') == 'red'):
        errs.append('%s: critical=%r but color=%r' % (what, crit, attrs.get('color')))
    if crit and attrs.get('penwidth') not in ('2', '2.0'):
        errs.append('%s: critical but penwidth=%r' % (what, attrs.get('penwidth')))
    if not crit and attrs.get('penwidth') in ('2', '2.0'):
        errs.append('%s: not critical but penwidth=%r' % (what, attrs.get('penwidth')))
    if attrs.get('shape') != 'box':
        errs.append('%s: shape=%r' % (what, attrs.get('shape')))
    return errs


def expected_label(job):
    return '{}: {}'.format(job._sched_id, job.label)


def compare(s, g, errs, top=True, inherited=None):
    """s: scheduler, g: parsed body for it"""
    ident = lambda j: j._sched_id
    sname = getattr(s, '_sched_id', None) or 'top'
    atoms = [j for j in s.jobs if not is_sched(j)]
    scheds = [j for j in s.jobs if is_sched(j)]
    # nodes: exactly the atomic direct jobs, once each
    declared = [n for n, _ in g.nodes]
    if sorted(declared) != sorted(ident(j) for j in atoms):
        errs.append('scheduler %s: node statements %r, atomic jobs %r'
                    % (sname, sorted(declared), sorted(ident(j) for j in atoms)))
    byid = {ident(j): j for j in atoms}
    for n, attrs in g.nodes:
        j = byid.get(n)
        if j is None:
            continue
        if attrs.get('label') != expected_label(j):
            errs.append('node %s: label %r, expected %r' % (n, attrs.get('label'), expected_label(j)))
        errs.extend(style_errors(j, attrs, 'node %s' % n))
    # clusters: exactly the nested schedulers, once each
    names = [x.name for x in g.subs]
    want = ['cluster_%s' % ident(j) for j in scheds]
    if sorted(names) != sorted(want):
        errs.append('scheduler %s: subgraphs %r, nested schedulers %r' % (sname, sorted(names), sorted(want)))
    # every node mentioned in this body lives under this scheduler
    under = {ident(j) for j in atoms_under(s)}
    for n in g.mentioned:
        if n not in under:
            errs.append('scheduler %s: its body mentions node %r which is not one of its jobs (it would be drawn '
                        'inside this cluster)' % (sname, n))
    # edges of this level
    clusters = {'cluster_%s' % ident(j): j for j in scheds}
    got = []
    for tail, head, attrs in g.edges:
        extra = set(attrs) - {'ltail', 'lhead'}
        if extra:
            errs.append('edge %s -> %s has unexpected attributes %r' % (tail, head, sorted(extra)))
        ends = []
        for node, key in ((tail, 'ltail'), (head, 'lhead')):
            if key in attrs:
                c = clusters.get(attrs[key])
                if c is None:
                    errs.append('edge %s -> %s: %s=%r is not a cluster of this scheduler' % (tail, head, key, attrs[key]))
                    ends.append(('?', attrs[key]))
                    continue
                if node not in {ident(j) for j in atoms_under(c)}:
                    errs.append('edge %s -> %s: %s=%s but node %s is not inside that cluster'
                                % (tail, head, key, attrs[key], node))
                ends.append(('c', ident(c)))
            else:
                if node not in byid:
                    errs.append('edge %s -> %s: endpoint %s is not an atomic job of scheduler %s and no %s is given'
                                % (tail, head, node, sname, key))
                ends.append(('n', node))
        got.append(tuple(ends))
    exp = []
    for a in s.jobs:
        for b in a.required:
            exp.append((('c' if is_sched(b) else 'n', ident(b)), ('c' if is_sched(a) else 'n', ident(a))))
    if sorted(got) != sorted(exp):
        errs.append('scheduler %s: edges %r, requirements %r' % (sname, sorted(got), sorted(exp)))
    # cluster attributes and recursion
    # DOT semantics: the `graph [...]` attributes of a (sub)graph are the defaults of the subgraphs nested in it
    effective = dict(inherited or {})
    effective.update(g.attrs)
    if not top:
        if effective.get('label') != expected_label(s):
            errs.append('cluster %s: label %r, expected %r' % (s._sched_id, effective.get('label'), expected_label(s)))
        errs.extend(style_errors(s, effective, 'cluster %s (attributes in effect, inherited ones included)' % s._sched_id))
    for sub in g.subs:
        c = clusters.get(sub.name)
        if c is not None:
            compare(c, sub, errs, top=False, inherited={k: v for k, v in effective.items() if k != 'compound'})


def check_dot(top):
    """returns a list of error strings (empty: dot_format() is faithful)"""
    try:
        text = top.dot_format()
    except Exception as exc:
        return ['dot_format() raised %r' % (exc,)]
    errs = []
    if not isinstance(text, str):
        return ['dot_format() returned %r' % type(text)]
    try:
        g = parse(text)
    except DotError as exc:
        return ['not valid DOT: %s' % exc]
    everything = all_under(top)
    ids = [j._sched_id for j in everything]
    if len(set(ids)) != len(ids) or any(not i for i in ids):
        errs.append('ids are not unique across the tree: %r' % sorted(map(str, ids)))
        return errs
    for i in ids:
        if not _ID.fullmatch(i):
            errs.append('id %r is not a DOT identifier' % i)
    compare(top, g, errs)
    return errs


# ------------------------------------------------------------------------------ the dot binary, when present
import shutil
import subprocess
DOT = shutil.which('dot')
_G = re.compile(r'<g id="[^"]*" class="(cluster|node)">\s*<title>([^<]*)</title>\s*<(?:polygon|path)([^>]*)>')


def check_with_dot_binary(top):
    """render with graphviz and read the border of every cluster and node back from the SVG"""
    if DOT is None:
        return []
    try:
        text = top.dot_format()
    except Exception:
        return []                                  # reported by check_dot
    p = subprocess.run([DOT, '-Tsvg'], input=text.encode(), capture_output=True)
    if p.returncode != 0 or b'syntax error' in p.stderr:
        return ['the dot binary rejects the output: %s' % p.stderr.decode(errors='replace')[:200]]
    svg = p.stdout.decode(errors='replace')
    drawn = {}
    for kind, title, attrs in _G.findall(svg):
        drawn[(kind, title)] = attrs
    errs = []
    if p.stderr.strip():
        errs.append('the dot binary warns: %s' % p.stderr.decode(errors='replace')[:200])
    # graphviz does not draw a cluster that holds no node: not a property of the DOT text
    hollow = [j for j in all_under(top) if is_sched(j) and not atoms_under(j)]
    for j in all_under(top):
        if j in hollow:
            continue
        key = ('cluster', 'cluster_%s' % j._sched_id) if is_sched(j) else ('node', j._sched_id)
        a = drawn.get(key)
        if a is None:
            errs.append('graphviz draws no %s for %s' % (key[0], j._sched_id))
            continue
        red = 'stroke="red"' in a
        dashed = 'stroke-dasharray' in a
        thick = 'stroke-width="2"' in a
        if red != bool(j.is_critical()) or thick != bool(j.is_critical()):
            errs.append('graphviz draws %s %s with %s although critical=%r' % (key[0], j._sched_id, a.strip()[:80], j.is_critical()))
        if dashed != bool(j.forever):
            errs.append('graphviz draws %s %s %s although forever=%r' % (key[0], j._sched_id, 'dashed' if dashed else 'solid', j.forever))
    n_nodes = sum(1 for k in drawn if k[0] == 'node')
    n_clusters = sum(1 for k in drawn if k[0] == 'cluster')
    if n_nodes != len(atoms_under(top)) or n_clusters != len(all_under(top)) - len(atoms_under(top)) - len(hollow):
        errs.append('graphviz draws %d nodes and %d clusters for %d atomic jobs and %d nested schedulers'
                    % (n_nodes, n_clusters, len(atoms_under(top)), len(all_under(top)) - len(atoms_under(top))))
    return errs


# ------------------------------------------------------------------------------ list()
def check_list(top):
    buf = io.StringIO()
    try:
        with contextlib.redirect_stdout(buf):
            top.list()
    except Exception as exc:
        return ['list() raised %r' % (exc,)]
    everything = all_under(top)
    byid = {}
    for j in everything:
        if j._sched_id in byid:
            return ['list(): two jobs share id %r' % j._sched_id]
        byid[j._sched_id] = j
    seen = []
    for line in buf.getvalue().split('\n'):
        toks = line.split()
        if not toks or toks[0] not in byid:
            continue                      # continuation of a multi-line label
        if len(toks) > 1 and toks[1] == '--end--':
            continue
        seen.append(toks[0])
    errs = []
    if sorted(seen) != sorted(byid):
        errs.append('list(): ids shown %r, jobs %r' % (seen, sorted(byid)))
        return errs
    nums = [int(x) for x in seen]
    if nums != list(range(1, len(nums) + 1)):
        errs.append('list(): jobs are not numbered 1..n in the order shown: %r' % seen)

    def walk(s):
        for a in s.jobs:
            for b in a.required:
                if not int(b._sched_id) < int(a._sched_id):
                    errs.append('list(): %s requires %s but is numbered before it' % (a._sched_id, b._sched_id))
            if is_sched(a):
                if not all(int(a._sched_id) < int(x._sched_id) for x in all_under(a)):
                    errs.append('list(): scheduler %s is not numbered before its own jobs' % a._sched_id)
                walk(a)
    walk(top)
    return errs


# ------------------------------------------------------------------------------ cases
LABELS = ['a', 'x"y', 'l1\nl2', 'a;b', 'a->b', '{k}', '[k]', 'café 漢', 'a,b', 'a=b', ' ', '',
          '"', '""', '#c', '//c', '/* c */', '<b>', 'cluster_1', 'digraph', '}', ']', '"];', 'x" color="blue',
          '\t', "'", 'end"']


class DJ(AbstractJob):
    def __init__(self, name, **kw):
        self.name = name
        self._bt = int(name[1:]) if name[1:].isdigit() else 10 ** 9
        super().__init__(**kw)

    def __repr__(self):
        return 'DJ(%s)' % self.name

    async def co_run(self):
        return None

    async def co_shutdown(self):
        pass


def build_tree(spec, counter=None, top=True):
    """spec: {'members': [spec | {'atom': True, ...}], 'edges': [[i, j]], 'label', 'critical', 'forever', 'pure'}"""
    counter = counter if counter is not None else itertools.count()
    mem = []
    for m in spec['members']:
        if m.get('atom'):
            mem.append(DJ('j%d' % next(counter), label=m.get('label', 'a'), critical=m.get('critical', False),
                          forever=m.get('forever', False)))
        else:
            mem.append(build_tree(m, counter, top=False))
    for i, j in spec.get('edges', []):
        mem[i].requires(mem[j])
    if top:
        if spec.get('pure'):
            out = PureScheduler(*mem)
        else:
            out = Scheduler(*mem, label=spec.get('label', 'top'))
    else:
        out = Scheduler(*mem, label=spec.get('label', 's'), critical=spec.get('critical', False),
                        forever=spec.get('forever', False))
    out._bt = next(counter)         # creation rank: a reproducible order on the objects of a tree
    return out


def has_empty_required_or_requiring(spec):
    """an empty nested scheduler that takes part in a requirement (directly, or as the only possible
    entry/exit of a scheduler that does) -- the known finding"""
    def empty(m):
        return not m.get('atom') and all(empty(x) for x in m['members']) if not m.get('atom') else False

    def rec(sp):
        mem = sp['members']
        for i, j in sp.get('edges', []):
            for k in (i, j):
                if not mem[k].get('atom') and hollow(mem[k]):
                    return True
        return any(rec(m) for m in mem if not m.get('atom'))

    def hollow(m):
        # some entry or exit chain of m may end in a scheduler without any job
        if m.get('atom'):
            return False
        if not m['members']:
            return True
        return any(hollow(x) for x in m['members'])
    return rec(spec)


def dags(n):
    pairs = [(i, j) for i in range(n) for j in range(i)]       # i requires j, j < i: acyclic
    for k in range(len(pairs) + 1):
        for sub in itertools.combinations(pairs, k):
            yield [list(p) for p in sub]


def random_spec(rng, depth, maxdepth, maxmembers=4):
    n = rng.choice([0, 1, 1, 2, 2, 3, 3, maxmembers]) if depth else rng.choice([1, 2, 3, 3, maxmembers])
    mem = []
    for _ in range(n):
        if depth < maxdepth and rng.random() < 0.35:
            mem.append(random_spec(rng, depth + 1, maxdepth, maxmembers))
        else:
            mem.append({'atom': True, 'label': rng.choice(LABELS), 'critical': rng.random() < 0.3,
                        'forever': rng.random() < 0.2})
    order = list(range(n))
    rng.shuffle(order)
    edges = [[order[i], order[j]] for i in range(n) for j in range(i) if rng.random() < 0.4]
    return {'members': mem, 'edges': edges, 'label': rng.choice(LABELS), 'critical': rng.random() < 0.3,
            'forever': rng.random() < 0.2, 'pure': depth == 0 and rng.random() < 0.3}


def cases(tier, rng):
    n = 0
    for case in _cases(tier, rng):
        n += 1
        if DOT is not None and (tier != 'quick' or case['kind'] in ('c20-label', 'c20-flags', 'c20-nest') or n % 8 == 0):
            case['dot'] = True
        yield case


def _cases(tier, rng):
    atom = lambda lab='a', **kw: dict({'atom': True, 'label': lab}, **kw)
    # 1. every label at every position of a small fixed tree
    for lab in LABELS:
        yield {'kind': 'c20-label', 'spec': {'members': [atom(lab), {'members': [atom(lab), atom('b')], 'edges': [[1, 0]], 'label': lab},
                                                         atom('c')], 'edges': [[1, 0], [2, 1]], 'label': lab}}
    # 2. every flag assignment on atom / nested
    for c1, f1, c2, f2 in itertools.product([False, True], repeat=4):
        yield {'kind': 'c20-flags', 'spec': {'members': [atom(critical=c1, forever=f1),
                                                         {'members': [atom()], 'edges': [], 'critical': c2, 'forever': f2}],
                                             'edges': [[1, 0]]}}
    for flags in itertools.product([False, True], repeat=6):
        c1, f1, c2, f2, c3, f3 = flags
        yield {'kind': 'c20-nest', 'spec': {'members': [
            {'members': [{'members': [{'members': [atom()], 'edges': [], 'critical': c3, 'forever': f3}, atom()], 'edges': [],
                          'critical': c2, 'forever': f2}, atom()], 'edges': [[1, 0]], 'critical': c1, 'forever': f1}], 'edges': []}}
    # 3. all DAGs over up to 3 (quick) / 4 members, with every choice of which members are nested schedulers of
    #    0, 1 or 2 jobs (depth 2), then one shape at depth 3
    nmax = 3 if tier == 'quick' else 4
    shapes = [atom(), {'members': [], 'edges': []}, {'members': [atom()], 'edges': []},
              {'members': [atom(), atom()], 'edges': [[1, 0]]}, {'members': [atom(), atom()], 'edges': []},
              {'members': [{'members': [atom(), atom()], 'edges': []}, atom()], 'edges': [[1, 0]]},
              {'members': [{'members': [], 'edges': []}, atom()], 'edges': []}]
    for n in range(1, nmax + 1):
        for kinds in itertools.product(range(len(shapes)), repeat=n):
            if tier == 'quick' and n == 3 and rng.random() < 0.6:
                continue
            if n == 4 and rng.random() < 0.97:
                continue
            for edges in dags(n):
                yield {'kind': 'c20-dag', 'spec': {'members': [shapes[k] for k in kinds], 'edges': edges}}
    # 4. random trees up to depth 3
    for _ in range(400 if tier == 'quick' else 6000):
        yield {'kind': 'c20-tree', 'spec': random_spec(rng, 0, 3)}
    # 5. trees that have been displayed or queried before, then edited (a job removed, a job added behind another), then
    #    drawn: nothing an earlier call computed may show.  A fixed shape first (the exit of a required nested scheduler is
    #    itself a nested scheduler), then random trees; drawn from a generator of their own
    aux = random.Random(rng.random())
    deep = {'members': [{'members': [{'members': [atom('c1'), atom('c2')], 'edges': [[1, 0]]}, atom('m')], 'edges': [[0, 1]]},
                        atom('b')], 'edges': [[1, 0]]}
    for k in range(8):
        yield {'kind': 'c20-stale', 'spec': deep, 'seed': k}
    for _ in range(150 if tier == 'quick' else 3000):
        yield {'kind': 'c20-stale', 'spec': random_spec(aux, 0, 3), 'seed': aux.randrange(1 << 30)}


KNOWN_EMPTY = '[empty-nested-scheduler-in-requirement] '


def hollow_obj(j):
    """some entry or exit chain of j may end in a scheduler without any job (same rule as `hollow` on specifications)"""
    return is_sched(j) and (not j.jobs or any(hollow_obj(x) for x in j.jobs))


def run_stale(case):
    r = random.Random(case['seed'])
    top = build_tree(case['spec'])
    buf = io.StringIO()
    with contextlib.redirect_stdout(buf):
        for q in r.sample(['list', 'dot', 'cycles', 'entry', 'exit'], r.randint(1, 3)):
            try:
                {'list': top.list, 'dot': top.dot_format, 'cycles': top.check_cycles, 'entry': top.entry_jobs,
                 'exit': top.exit_jobs}[q]()
            except Exception:                                       # pylint: disable=broad-except
                pass
    scheds = sorted([top] + [x for x in all_under(top) if is_sched(x)], key=lambda x: x._bt)
    for _ in range(r.randint(1, 2)):
        s_ = r.choice(scheds)
        atoms = [j for j in s_.jobs if not is_sched(j)]
        if len(atoms) >= 2 and r.random() < 0.7:
            # (another atomic job stays: no scheduler becomes hollow, which is the known finding)
            gone = r.choice(sorted(atoms, key=lambda j: j._bt))
            s_.remove(gone)
            for j in s_.jobs:
                j.required.discard(gone)
        else:
            # (not behind a hollow nested scheduler: the known finding again)
            solid = [j for j in s_.jobs if not hollow_obj(j)]
            if solid:
                new = DJ('late%d' % r.randrange(10 ** 6), label='late')
                new.requires(r.choice(sorted(solid, key=lambda j: j._bt)))
                s_.add(new)
    errs = check_dot(top) + check_list(top)
    return errs


def run(case):
    spec = case['spec']
    if case['kind'] == 'c20-stale':
        errs = run_stale(case)
        if not errs:
            return None
        tag = KNOWN_EMPTY if has_empty_required_or_requiring(spec) and all(
            ('no entry found' in e or 'no exit found' in e) for e in errs) else ''
        return tag + 'after earlier queries and an edit: ' + '; '.join(errs[:3])
    errs = []
    fns = [check_dot, check_list]
    if case.get('dot'):
        fns.append(check_with_dot_binary)
    for fn in fns:
        top = build_tree(spec)
        errs.extend(fn(top))
    if not errs:
        return None
    tag = ''
    if has_empty_required_or_requiring(spec) and all(('no entry found' in e or 'no exit found' in e) for e in errs):
        tag = KNOWN_EMPTY
    return tag + '; '.join(errs[:3])
