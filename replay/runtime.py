"""
replay/runtime.py -- scenario generators and trace oracles for the run-time properties
C01-C14, evaluated on REAL runs of asynciojobs in virtual time (replay/vloop.py).

The oracles are written from the property statements.  Events of a trace:
  create (task made for a direct member), enter / exit-ret / exit-raise / cancelled /
  cancel-done (job bodies and nested runs), run-cancelled (nested run cancelled from outside),
  shutdown / shutdown-done / shutdown-cancelled.
"""
import contextlib
import copy
import io
import random

from asynciojobs import PureScheduler
import asyncio
from . import vloop

BODY_END = ('exit-ret', 'exit-raise', 'cancel-done', 'run-cancelled')


def v_under(b, name):
    out = []
    for m in b.members.get(name, []):
        out.append(m)
        out.extend(v_under(b, m))
    return out


# ----------------------------------------------------------------------------- running
def execute(spec, external_cancel_at=None, sample=None):
    b = vloop.build(spec)
    orig = PureScheduler._create_task
    samples = []

    def logged_create(self, job, window):
        t = orig(self, job, window)
        b.trace.log('create', getattr(job, 'name', '?'), sched=getattr(self, 'name', '?'))
        return t
    PureScheduler._create_task = logged_create
    if sample is not None:
        inner = b.trace.log

        def log2(event, name, **kw):
            inner(event, name, **kw)
            samples.append((b.trace.tick, sample(b)))
        b.trace.log = log2
    buf = io.StringIO()
    try:
        with contextlib.redirect_stdout(buf):
            def add_job(S, js):
                o = vloop.SJob(js['name'], b.trace, duration=js.get('duration', 1.0), outcome=js.get('outcome', 'ret'),
                               critical=js.get('critical', False), forever=js.get('forever', False),
                               cancel_delay=js.get('cancel_delay', 0.0), shutdown_duration=js.get('shutdown_duration', 0.0),
                               yields=js.get('yields', 0))
                b.objs[S].add(o)
                b.objs[js['name']] = o
                b.spec[js['name']] = js
                b.parent[js['name']] = S
                b.members[S].append(js['name'])

            def apply(step):
                """one edit of the tree between two runs; the bookkeeping the oracles read (b.spec, b.members,
                b.edges) is edited alongside"""
                kind = step[0]
                if kind == 'edge':
                    _, S, i, j = step
                    mem = b.members[S]
                    b.objs[mem[i]].requires(b.objs[mem[j]])
                    if (mem[i], mem[j]) not in b.edges[S]:
                        b.edges[S].append((mem[i], mem[j]))
                elif kind == 'window':
                    _, S, w = step
                    b.objs[S].jobs_window = w
                    b.spec[S]['window'] = w
                elif kind == 'add':
                    add_job(step[1], step[2])
                elif kind == 'remove':
                    _, S, name = step
                    sch = b.objs[S]
                    sch.remove(b.objs[name])
                    sch.sanitize()
                    b.members[S].remove(name)
                    b.edges[S] = [(x, y) for (x, y) in b.edges[S] if name not in (x, y)]
                    # the job has left the tree: the properties no longer speak of it
                    for d_ in (b.objs, b.spec, b.parent):
                        d_.pop(name, None)
                elif kind == 'bypass':
                    # bypass_and_remove, NOT followed by sanitize (it leaves the scheduler closed by itself)
                    _, S, name = step
                    ups = [y for (x, y) in b.edges[S] if x == name]
                    downs = [x for (x, y) in b.edges[S] if y == name]
                    b.objs[S].bypass_and_remove(b.objs[name])
                    b.members[S].remove(name)
                    b.edges[S] = [(x, y) for (x, y) in b.edges[S] if name not in (x, y)]
                    for d_ in downs:
                        for u_ in ups:
                            if (d_, u_) not in b.edges[S] and d_ != u_:
                                b.edges[S].append((d_, u_))
                    for dd in (b.objs, b.spec, b.parent):
                        dd.pop(name, None)
                elif kind == 'clear':
                    # every member is taken out: an empty scheduler is still a scheduler
                    S = step[1]
                    sch = b.objs[S]
                    for name in list(b.members[S]):
                        sch.remove(b.objs[name])
                        for x in [name] + (v_under(b, name)):
                            for dd in (b.objs, b.spec, b.parent, b.members, b.edges):
                                dd.pop(x, None)
                    b.members[S] = []
                    b.edges[S] = []
                elif kind == 'query':
                    sch = b.objs[step[1]]
                    list(sch.entry_jobs()), list(sch.exit_jobs()), sch.check_cycles(), list(sch.iterate_jobs())
                    for m in b.members[step[1]]:
                        sch.successors(b.objs[m]), sch.predecessors_upstream(b.objs[m])
                    sch.list()
                    try:
                        sch.dot_format()
                    except ValueError:
                        pass

            def second(k=0):
                # forget the earlier run: the trace and the shutdown-call counters start again
                del b.trace.events[:]
                del samples[:]
                for o in b.objs.values():
                    if hasattr(o, '_sd_calls'):
                        o._sd_calls = 0
                if 'rerun_window' in spec and k == 0:
                    apply(['window', b.top.name, spec['rerun_window']])
                for js in (spec.get('rerun_add') or []) if k == 0 else []:
                    apply(['add', b.top.name, js])
                ed = spec.get('rerun_edge')
                if ed and k == 0:
                    apply(['edge'] + list(ed))
                sess = spec.get('session') or []
                for step in (sess[k] if k < len(sess) else []):
                    apply(step)
            nruns = max(len(spec.get('session') or []), 1) if spec.get('rerun') else 0

            def probe_now():
                # read-only queries made while the run is in progress (from another task of the loop)
                for S in list(b.members):
                    try:
                        apply(['query', S])
                    except Exception as exc:          # a query that raises mid-run is reported by the oracles' caller
                        b.trace.log('probe-raised', S, exc=exc)
            for t_ in spec.get('probe_at') or []:
                b.loop.call_at(t_, probe_now)
            # edits and queries made on the freshly built tree, before its first run
            for step in spec.get('presession') or []:
                apply(step)
            r = vloop.run(b, external_cancel_at=external_cancel_at, again=nruns, on_second_run=second)
    finally:
        PureScheduler._create_task = orig
    r.samples = samples
    return b, r


class View:
    """indexed view of a trace"""

    def __init__(self, b, r):
        self.b, self.r = b, r
        self.ev = b.trace.events
        self.by = {}
        for e in self.ev:
            self.by.setdefault(e[3], []).append(e)

    def first(self, name, *events):
        for e in self.by.get(name, []):
            if e[2] in events:
                return e
        return None

    def all(self, name, *events):
        return [e for e in self.by.get(name, []) if e[2] in events]

    def end(self, name):
        """the event that ends the body / run of `name`"""
        return self.first(name, *BODY_END)

    def scheds(self):
        return list(self.b.members)

    def is_sched(self, name):
        return name in self.b.members

    def under(self, name):
        out = []
        for m in self.b.members.get(name, []):
            out.append(m)
            out.extend(self.under(m))
        return out


# ----------------------------------------------------------------------------- generators
def gen_job(rng, name, allow_never=True):
    d = rng.choice([0, 1, 1, 2, 3])
    sp = dict(name=name, type='job', duration=d, outcome='raise' if rng.random() < 0.25 else 'ret',
              critical=rng.random() < 0.3, forever=rng.random() < 0.15,
              cancel_delay=rng.choice([0, 0, 0.25]), shutdown_duration=rng.choice([0, 0, 0.25, 3]),
              yields=rng.choice([0, 0, 0, 1, 2, 3]))
    if sp['forever'] and allow_never and rng.random() < 0.6:
        sp['duration'] = None
    if rng.random() < 0.25:
        sp['empty_exc'] = True      # if it raises, its exception has an empty message
    return sp


def gen_tree(rng, depth=0, prefix='', maxdepth=2, windows=True, timeouts=True, nmax=4):
    n = rng.randint(1, nmax)
    members = []
    for i in range(n):
        nm = '%s%d' % (prefix or 'm', i)
        if depth < maxdepth and rng.random() < 0.3:
            members.append(gen_tree(rng, depth + 1, nm + '_', maxdepth, windows, timeouts, 3))
            members[-1]['name'] = nm
        else:
            members.append(gen_job(rng, nm))
    edges = [(a, b) for a in range(n) for b in range(a) if rng.random() < 0.4]
    sp = dict(name=prefix + 'S' if depth else 'top', type='sched', members=members, edges=edges,
              window=rng.choice([None, None, 1, 2, 3]) if windows else None,
              timeout=rng.choice([None, None, None, 0.5, 1.5, 2.5, 4.5]) if timeouts else None,
              shutdown_timeout=rng.choice([1, 1, 0.125, None]),
              critical=rng.random() < 0.5, forever=False, pure=(depth == 0 and rng.random() < 0.3))
    make_admissible(sp, rng)
    return sp


def never_ends(sp):
    return sp['type'] == 'job' and sp.get('duration') is None


def make_admissible(sp, rng):
    """enforce the hypotheses of C03 on one scheduler (statement of C03)"""
    mem = sp['members']
    n = len(mem)
    # a never-ending job must be forever, and no non-forever job may depend on a never-ending one
    req = {i: set() for i in range(n)}
    for a, b in sp['edges']:
        req[a].add(b)

    def depends_on_never(i, seen=()):
        return any(never_ends(mem[j]) or (j not in seen and depends_on_never(j, seen + (i,))) for j in req[i])
    for i in range(n):
        if never_ends(mem[i]):
            mem[i]['forever'] = True
    for i in range(n):
        if not mem[i].get('forever') and depends_on_never(i):
            for j in range(n):
                if never_ends(mem[j]):
                    mem[j]['duration'] = 2
    # every scheduler owns at least one non-forever job (with none, 'its last non-forever job' of the
    # statements does not exist: degenerate case excluded, see DESIGN.md section 12)
    if all(m.get('forever') for m in mem):
        mem[0]['forever'] = False
        if never_ends(mem[0]):
            mem[0]['duration'] = 1
        # re-check dependants of member 0
        for j in req[0]:
            if never_ends(mem[j]):
                mem[j]['duration'] = 1
    # each window is larger than the number of never-ending jobs it may hold
    nn = sum(1 for m in mem if never_ends(m))
    if sp.get('window') is not None and sp['window'] <= nn:
        sp['window'] = nn + 1


def all_specs(sp):
    out = [sp]
    for m in sp.get('members', []):
        out.extend(all_specs(m))
    return out


# ----------------------------------------------------------------------------- oracles
def o_c01(v):
    for S in v.scheds():
        for a, c in v.b.edges[S]:
            ea = v.first(a, 'enter')
            if ea is None:
                continue
            ec = v.first(c, 'exit-ret', 'exit-raise')
            if ec is None or ec[0] > ea[0]:
                return '%s entered before its requirement %s finished' % (a, c)
            if v.is_sched(a):
                for x in v.under(a):
                    for e in v.by.get(x, []):
                        if e[2] in ('enter', 'create') and e[0] < ec[0]:
                            return '%s (inside nested %s) began before %s, required by %s, finished' % (x, a, c, a)
    return None


def run_end_event(v, S):
    return v.first(S, 'exit-ret', 'exit-raise', 'run-cancelled')


def o_c02(v):
    err = unexpected_exception(v)
    if err:
        return err
    for name in v.by:
        if len(v.all(name, 'enter')) > 1:
            return 'body of %s entered %d times' % (name, len(v.all(name, 'enter')))
    for S in v.scheds():
        e = v.first(S, 'exit-ret')
        if e is None or e[4].get('result') is not True:
            continue
        for m in v.b.members[S]:
            if v.b.spec[m].get('forever'):
                continue
            n_enter = len(v.all(m, 'enter'))
            fin = v.first(m, 'exit-ret', 'exit-raise')
            if n_enter != 1 or fin is None or fin[0] > e[0]:
                return 'run of %s reported success but non-forever %s did not run to its end exactly once' % (S, m)
            if fin[2] == 'exit-raise' and v.b.spec[m].get('critical'):
                return 'run of %s reported success although critical %s raised' % (S, m)
    return None


def unexpected_exception(v):
    """a scheduler's run ends by returning, by being cancelled, or -- for a critical scheduler -- by raising
    TimeoutError or the exception of one of its critical members; anything else coming out of co_run (typically
    ValueError('Set of Tasks/Futures is empty.') when the scheduler has lost track of a job) is reported"""
    for S in v.scheds():
        e = v.first(S, 'exit-raise')
        if e is None:
            continue
        exc = e[4].get('exc')
        if isinstance(exc, (asyncio.CancelledError, TimeoutError)):
            continue
        ok = False
        for m in v.b.members.get(S, []):
            if m not in v.b.spec or not v.b.spec[m].get('critical'):
                continue
            me = v.first(m, 'exit-raise')
            if me is None:
                continue
            src = me[4].get('exc') if v.is_sched(m) else v.b.objs[m].exc
            if src is exc:
                ok = True
        if not ok:
            return 'the run of %s ended with an exception that none of its critical jobs raised: %r' % (S, exc)
    return None


def o_c03(v):
    if v.r.hang:
        return 'run does not terminate: ' + v.r.hang
    return unexpected_exception(v)


def happened(v, S):
    """(cause, tie) for the run of S, from the trace: NONE / TIMEOUT / CRITICAL"""
    sp = v.b.spec[S]
    begin = v.first(S, 'enter')
    end = run_end_event(v, S)
    if begin is None or end is None or end[2] == 'run-cancelled':
        return None, False
    T = sp.get('timeout')
    deadline = None if T is None else begin[1] + T
    crit = [v.first(m, 'exit-raise') for m in v.b.members[S] if v.b.spec[m].get('critical')]
    crit = [e for e in crit if e is not None and e[0] < end[0]]
    fins = []
    for m in v.b.members[S]:
        if v.b.spec[m].get('forever'):
            continue
        fins.append(v.first(m, 'exit-ret', 'exit-raise'))
    all_done_at = None if (any(f is None for f in fins)) else max([f[1] for f in fins] + [begin[1]])
    tc = min([e[1] for e in crit]) if crit else None
    tie = False
    if deadline is not None:
        if tc is not None and tc == deadline:
            tie = True
        if all_done_at is not None and all_done_at == deadline:
            tie = True
    if tc is not None and (deadline is None or tc < deadline):
        # a critical job raised before expiry: but only if the run was not already over
        return 'CRITICAL', tie
    if deadline is not None and (all_done_at is None or all_done_at > deadline) and (tc is None or tc > deadline):
        return 'TIMEOUT', tie
    if all_done_at is not None and (deadline is None or all_done_at < deadline):
        return 'NONE', tie
    return None, True


def o_c04(v):
    err = unexpected_exception(v)
    if err:
        return err
    for S in v.scheds():
        cause, tie = happened(v, S)
        if cause is None or tie:
            continue
        obj = v.b.objs[S]
        sp = v.b.spec[S]
        end = run_end_event(v, S)
        top_pure = isinstance(obj, vloop.LPureScheduler)
        if cause == 'NONE':
            if not (end[2] == 'exit-ret' and end[4].get('result') is True):
                return 'run of %s should report success, got %s %s' % (S, end[2], end[4])
            if obj.failed_time_out() or obj.failed_critical() or obj.why() != 'FINE':
                return 'diagnosis after success of %s names a cause: %r' % (S, obj.why())
            continue
        critical_sched = (not top_pure) and sp.get('critical')
        if not critical_sched:
            if not (end[2] == 'exit-ret' and end[4].get('result') is False):
                return 'failed run (%s) of non-critical/pure %s should return False, got %s %s' % (cause, S, end[2], end[4])
        else:
            if end[2] != 'exit-raise':
                return 'failed run (%s) of critical %s should raise, got %s %s' % (cause, S, end[2], end[4])
            exc = end[4].get('exc')
            if cause == 'TIMEOUT' and not isinstance(exc, TimeoutError):
                return 'critical %s timed out but raised %r' % (S, exc)
            if cause == 'CRITICAL':
                raised = [v.first(m, 'exit-raise') for m in v.b.members[S] if v.b.spec[m].get('critical')]
                objs = []
                for m in v.b.members[S]:
                    if v.b.spec[m].get('critical') and v.first(m, 'exit-raise'):
                        e = v.first(m, 'exit-raise')
                        objs.append(e[4].get('exc') if v.is_sched(m) else v.b.objs[m].exc)
                if not any(exc is o for o in objs):
                    return 'critical %s raised %r, not the exception object of one of its critical jobs' % (S, exc)
        if cause == 'TIMEOUT':
            if not obj.failed_time_out() or obj.failed_critical() or not obj.why().startswith('TIMED OUT'):
                return 'diagnosis of %s after a timeout: failed_time_out=%r failed_critical=%r why=%r' % (
                    S, obj.failed_time_out(), obj.failed_critical(), obj.why())
        if cause == 'CRITICAL':
            if not obj.failed_critical() or obj.failed_time_out() or 'CRITICAL' not in obj.why():
                return 'diagnosis of %s after a critical failure: failed_time_out=%r failed_critical=%r why=%r' % (
                    S, obj.failed_time_out(), obj.failed_critical(), obj.why())
    return None


def slack(v, S):
    """generous bound on the time cancellations and shutdown below S may take"""
    tot = 0.0
    for x in [S] + v.under(S):
        sp = v.b.spec[x]
        if sp['type'] == 'job':
            tot += sp.get('cancel_delay', 0) or 0
            tot += 0    # shutdown handlers are bounded by the schedulers' shutdown_timeout
        else:
            st = sp.get('shutdown_timeout', 1)
            tot += 1000 if st is None else st
            if st is None:
                tot += sum((v.b.spec[y].get('shutdown_duration', 0) or 0) for y in v.under(x)
                           if v.b.spec[y]['type'] == 'job')
    return tot


def abort_oracle(v, S, t_abort, tick_abort, what):
    """after the abort instant of S: nothing new starts, running/queued members are cancelled at
    that instant, and the run ends within the cancellation + shutdown slack"""
    end = run_end_event(v, S)
    for m in v.b.members[S]:
        for e in v.all(m, 'create'):
            if e[0] > tick_abort:
                return '%s: task for %s created after the %s' % (S, m, what)
        en = v.first(m, 'enter')
        fin = v.end(m)
        if en is not None and en[0] < tick_abort and (fin is None or fin[0] > tick_abort):
            if fin is not None and fin[1] == t_abort and fin[2] in ('exit-ret', 'exit-raise'):
                continue        # ended by itself within the very instant of the abort
            c = v.first(m, 'cancelled') if not v.is_sched(m) else (v.first(m, 'run-cancelled') or v.first(m, 'exit-raise') or v.first(m, 'exit-ret'))
            if c is None:
                return '%s: %s was running at the %s and was never cancelled' % (S, m, what)
            if not v.is_sched(m) and c[1] != t_abort:
                return '%s: %s cancelled at %s, not at the instant of the %s (%s)' % (S, m, c[1], what, t_abort)
        if en is not None and en[0] > tick_abort and v.first(m, 'create') and v.first(m, 'create')[0] < tick_abort:
            # queued for a slot (or created in the same instant) and entered later
            if en[1] > t_abort:
                return '%s: %s, waiting at the %s, started later at %s' % (S, m, what, en[1])
            # it took a slot freed within the abort instant: then it must be cancelled (or end by itself) in
            # that same instant like every other running job
            c = v.first(m, 'cancelled') if not v.is_sched(m) else (v.first(m, 'run-cancelled') or v.first(m, 'exit-raise') or v.first(m, 'exit-ret'))
            if not (fin is not None and fin[1] == t_abort) and (c is None or (not v.is_sched(m) and c[1] != t_abort)):
                return '%s: %s, waiting for a slot at the %s, got one in that instant and was not cancelled then' % (S, m, what)
    # "... and ends, after those cancellations": the run is not over before every job it cancelled has unwound
    if end is not None and end[2] != 'run-cancelled':
        for m in v.b.members[S]:
            c = v.first(m, 'cancelled') if not v.is_sched(m) else None
            if c is not None and c[1] >= t_abort and c[0] < end[0]:
                fin = v.first(m, 'cancel-done')
                if fin is None or fin[0] > end[0]:
                    return '%s: run ended (tick %d, vt %s) before the cancellation of %s had completed' % (S, end[0], end[1], m)
    # ... at any depth: when the run of S is over nothing below S is still going
    if end is not None and end[2] != 'run-cancelled':
        for x in v.under(S):
            if v.is_sched(x):
                continue
            en, fin = v.first(x, 'enter'), v.end(x)
            if en is not None and en[0] < end[0] and (fin is None or fin[0] > end[0]):
                return '%s: its run ended (tick %d, vt %s) while %s, somewhere below it, was still going' % (S, end[0], end[1], x)
    if end is not None and end[1] > t_abort + slack(v, S) + 1e-9:
        return '%s: run ended at %s, later than %s + cancellation/shutdown slack %s' % (S, end[1], t_abort, slack(v, S))
    return None


def o_c05(v):
    for S in v.scheds():
        cause, tie = happened(v, S)
        if cause != 'CRITICAL' or tie:
            continue
        end = run_end_event(v, S)
        crit = [v.first(m, 'exit-raise') for m in v.b.members[S] if v.b.spec[m].get('critical')]
        crit = sorted([e for e in crit if e is not None and e[0] < end[0]])
        c = crit[0]
        err = abort_oracle(v, S, c[1], c[0], 'critical failure of %s' % c[3])
        if err:
            return err
        for m in v.b.members[S]:
            e = v.first(m, 'exit-ret')
            if e is not None and not v.is_sched(m) and e[0] < c[0]:
                o = v.b.objs[m]
                if not o.is_done() or o.result() != o.retval:
                    return '%s finished before the abort but lost its result' % m
    return None


def o_c07(v):
    for S in v.scheds():
        w = v.b.spec[S].get('window')
        if not w:
            continue
        running = 0
        for e in v.ev:
            if e[3] in v.b.members[S]:
                if e[2] == 'enter':
                    running += 1
                    if running > w:
                        return 'window of %s (%d) exceeded at vt=%s' % (S, w, e[1])
                elif e[2] in BODY_END and v.first(e[3], 'enter') and v.first(e[3], 'enter')[0] < e[0]:
                    if e is v.end(e[3]):
                        running -= 1
    return None


def o_c08(v):
    for S in v.scheds():
        sp = v.b.spec[S]
        T = sp.get('timeout')
        begin = v.first(S, 'enter')
        end = run_end_event(v, S)
        if T is None or begin is None or end is None or end[2] == 'run-cancelled':
            continue
        cause, tie = happened(v, S)
        if tie or cause is None:
            continue
        deadline = begin[1] + T
        if cause == 'TIMEOUT':
            # tick of the abort: last event at vt <= deadline that precedes any event after the deadline
            ticks = [e[0] for e in v.ev if e[1] <= deadline]
            tick_abort = max(ticks) if ticks else 0
            # members created at the deadline instant are legitimate; use the first tick after the deadline
            err = abort_oracle(v, S, deadline, tick_abort + 0, 'timeout')
            if err and 'created after' in err:
                # creations exactly at the deadline instant are decided by C12/C05 style tick order; only
                # creations at a later vt are violations here
                late = [e for m in v.b.members[S] for e in v.all(m, 'create') if e[1] > deadline]
                err = ('%s: task created after the timeout at vt=%s' % (S, late[0][1])) if late else None
            if err:
                return err
        elif cause == 'NONE':
            if v.b.objs[S].failed_time_out():
                return '%s finished before its timeout yet reports a timeout' % S
    return None


def o_c09(v):
    for S in v.scheds():
        cause, tie = happened(v, S)
        if cause != 'NONE' or tie:
            continue
        fins = [v.first(m, 'exit-ret', 'exit-raise') for m in v.b.members[S] if not v.b.spec[m].get('forever')]
        begin = v.first(S, 'enter')
        last = max(fins, key=lambda e: e[0]) if fins else begin
        end = run_end_event(v, S)
        for m in v.b.members[S]:
            if not v.b.spec[m].get('forever'):
                continue
            en = v.first(m, 'enter')
            fin = v.end(m)
            if en is not None and en[0] < last[0] and (fin is None or fin[0] > last[0]):
                if fin is not None and fin[1] == last[1] and fin[2] in ('exit-ret', 'exit-raise'):
                    continue    # ended by itself within that very instant
                c = v.first(m, 'cancelled') if not v.is_sched(m) else v.first(m, 'run-cancelled', 'exit-ret', 'exit-raise')
                if c is None or (not v.is_sched(m) and c[1] != last[1]):
                    return '%s: forever job %s not cancelled at the instant %s the last regular job finished' % (S, m, last[1])
            if en is not None and en[1] > last[1]:
                return '%s: forever job %s started at %s after the run was over (%s)' % (S, m, en[1], last[1])
            if en is not None and (fin is None or fin[0] > end[0]):
                return '%s: forever job %s outlives the run (run over at tick %d, vt %s)' % (S, m, end[0], end[1])
        if end[1] > last[1] + slack(v, S) + 1e-9:
            return '%s: run ended at %s, not as soon as its last regular job finished (%s)' % (S, end[1], last[1])
    # "forever jobs start under the same requirement and window rules as any job"
    err = o_c12(v, only=lambda m: bool(v.b.spec[m].get('forever')))
    if err:
        return err + ' (a forever job)'
    # "forever jobs never outlive the run", at any depth: once the top-level run has returned nothing that is a
    # forever job, or lies inside a forever nested scheduler, is still going
    top = v.b.top.name
    tend = run_end_event(v, top)
    if tend is not None and tend[2] == 'exit-ret':
        def forever_here(x):
            while x in v.b.parent:
                if v.b.spec[x].get('forever'):
                    return True
                x = v.b.parent[x]
            return False
        for x in v.under(top):
            if v.is_sched(x) or not forever_here(x):
                continue
            en, fin = v.first(x, 'enter'), v.end(x)
            if en is not None and (fin is None or fin[0] > tend[0]):
                return 'forever job %s (or a job of a forever nested scheduler) outlives the top-level run (over at tick %d, vt %s)' % (
                    x, tend[0], tend[1])
    return None


def winding_down_when_cancelled(v, S):
    """S was cancelled from outside while it was itself already ending its run (own timeout expired,
    own critical failure, or last regular job done): the known C11 window, see known_findings.json"""
    end = run_end_event(v, S)
    begin = v.first(S, 'enter')
    if end is None or begin is None or end[2] != 'run-cancelled':
        return False
    sp = v.b.spec[S]
    T = sp.get('timeout')
    if T is not None and begin[1] + T <= end[1]:
        return True
    for m in v.b.members[S]:
        e = v.first(m, 'exit-raise')
        if e is not None and e[0] < end[0] and v.b.spec[m].get('critical'):
            return True
    fins = [v.first(m, 'exit-ret', 'exit-raise') for m in v.b.members[S] if not v.b.spec[m].get('forever')]
    if fins and all(f is not None and f[0] < end[0] for f in fins):
        return True
    return False


def o_c11(v):
    if v.r.hang:
        return None
    if v.r.leftover:
        return 'unfinished tasks after the run: %d' % len(v.r.leftover)
    late = [e for e in v.r.late_events if e[2] not in ()]
    if late:
        return 'activity after the top-level run returned: %s' % [(e[1], e[2], e[3]) for e in late[:4]]
    for S in v.scheds():
        end = run_end_event(v, S)
        if end is None:
            continue
        for x in v.under(S):
            for e in v.by.get(x, []):
                if e[0] > end[0] and e[2] in ('enter', 'exit-ret', 'exit-raise', 'cancel-done', 'create', 'cancelled'):
                    tag = '[cancel-while-winding-down] ' if winding_down_when_cancelled(v, S) else ''
                    return '%s%s %s at vt=%s after the run of %s was over (vt=%s)' % (tag, x, e[2], e[1], S, end[1])
        for x in v.under(S):
            sd = v.first(x, 'shutdown')
            if sd is not None and v.first(x, 'shutdown-done', 'shutdown-cancelled') is None:
                return 'shutdown handler of %s still pending' % x
    return None


def clean_run(v, S):
    """no abort of any kind in S or above it"""
    cause, tie = happened(v, S)
    return cause == 'NONE' and not tie


def o_c12(v, only=None):
    """`only`: a predicate on member names (C09 uses it for 'forever jobs start under the same rules as any job')"""
    err = unexpected_exception(v)
    if err:
        return err
    for S in v.scheds():
        sp = v.b.spec[S]
        begin = v.first(S, 'enter')
        end = run_end_event(v, S)
        if begin is None or end is None:
            continue
        cause, tie = happened(v, S)
        if tie or cause is None:
            continue
        # the instant from which S starts nothing more
        if cause == 'NONE':
            stop_tick = end[0]
        elif cause == 'TIMEOUT':
            stop_tick = min([e[0] for e in v.ev if e[1] >= begin[1] + sp['timeout']] + [end[0]])
        else:
            crit = sorted(e for e in (v.first(m, 'exit-raise') for m in v.b.members[S]
                                      if v.b.spec[m].get('critical')) if e is not None)
            # "from the instant a critical job raises, that scheduler starts no further job" (C05): a job that
            # becomes eligible within that very instant, even a few loop iterations before the failure, may be
            # delivered to the scheduler in the same batch as the failure and need not start
            stop_tick = min([e[0] for e in v.ev if e[1] >= crit[0][1] and e[0] >= begin[0]] + [crit[0][0]])
        if cause == 'NONE':
            # the run is over from the instant its last regular job finished (C09): what becomes eligible within
            # that very instant (a forever job, typically) may reach the scheduler in the same batch and not start
            fins = [v.first(m, 'exit-ret', 'exit-raise') for m in v.b.members[S] if not v.b.spec[m].get('forever')]
            t_last = max([f[1] for f in fins] + [begin[1]])
            stop_tick = min([e[0] for e in v.ev if e[1] >= t_last and e[0] > begin[0]] + [end[0]])
            if not fins:
                stop_tick = begin[0]
        req = {m: [] for m in v.b.members[S]}
        for a, c in v.b.edges[S]:
            req[a].append(c)
        w = sp.get('window')
        for m in v.b.members[S]:
            if only is not None and not only(m):
                continue
            rs = [v.first(c, 'exit-ret', 'exit-raise') for c in req[m]]
            if any(e is None for e in rs):
                continue
            ready = max([e for e in rs], key=lambda e: e[0]) if rs else begin
            if ready[0] >= stop_tick:
                continue
            en = v.first(m, 'enter')
            if not w:
                if en is None or en[1] != ready[1]:
                    return '%s: %s eligible at %s but started at %s' % (S, m, ready[1], en[1] if en else None)
        if w:
            # at the end of every instant: fewer than w running  =>  no eligible job waiting
            times = sorted({e[1] for e in v.ev if begin[0] <= e[0] <= stop_tick})
            for t in times:
                last_tick = max(e[0] for e in v.ev if e[1] <= t)
                if last_tick >= stop_tick:
                    break
                running = 0
                waiting = []
                for m in v.b.members[S]:
                    en = v.first(m, 'enter')
                    fin = v.end(m)
                    if en is not None and en[0] <= last_tick and (fin is None or fin[0] > last_tick):
                        running += 1
                    rs = [v.first(c, 'exit-ret', 'exit-raise') for c in req[m]]
                    elig = all(e is not None and e[0] <= last_tick for e in rs)
                    if elig and (en is None or en[0] > last_tick):
                        waiting.append(m)
                if only is not None:
                    waiting = [m for m in waiting if only(m)]
                if waiting and running < w:
                    return '%s: at vt=%s only %d of %d slots busy while %s is eligible and waiting' % (S, t, running, w, waiting)
    return None


def o_c13(v):
    if v.r.hang or v.r.exc is not None and not isinstance(v.r.exc, Exception):
        return None
    top_end = run_end_event(v, v.b.top.name)
    if top_end is None:
        return None
    for x in v.under(v.b.top.name):
        if v.is_sched(x):
            continue        # a nested scheduler relays the message; what counts is what its jobs receive
        n = len(v.all(x, 'shutdown'))
        if n != 1:
            return '%s received co_shutdown() %d times' % (x, n)
        if v.first(x, 'shutdown')[0] > top_end[0]:
            return '%s received co_shutdown() after the top-level run ended' % x
    for S in v.scheds():
        sd = v.first(S, 'shutdown')
        if sd is None:
            continue
        for m in v.b.members[S]:
            en = v.first(m, 'enter')
            fin = v.end(m)
            if en is not None and en[0] < sd[0] and (fin is None or fin[0] > sd[0]):
                return 'shutdown of %s began while its job %s was still running' % (S, m)
        raised = v.first(S, 'shutdown-raised')
        if raised is not None:
            return 'co_shutdown() of %s raised %r' % (S, raised[4].get('exc'))
        # "the shutdown phase lasts at most shutdown_timeout, handlers still pending then being cancelled": no
        # handler of a direct atomic job is still going after that (plus the time the cancellation itself takes)
        st0 = v.b.spec[S].get('shutdown_timeout', 1)
        if st0 is not None:
            for m in v.b.members[S]:
                if v.is_sched(m):
                    continue
                h0 = v.first(m, 'shutdown')
                h1 = v.first(m, 'shutdown-done', 'shutdown-cancelled')
                if h0 is not None and h0[0] > sd[0] and (h1 is None or h1[1] > sd[1] + st0 + 1e-9):
                    return 'shutdown handler of %s still going after shutdown_timeout %s of %s (began %s, ended %s)' % (
                        m, st0, S, sd[1], h1[1] if h1 else None)
        dones = [e for e in v.all(S, 'shutdown-done') if e[4].get('call') == 1]
        done = dones[0] if dones else None
        st = v.b.spec[S].get('shutdown_timeout', 1)
        if done is not None and st is not None:
            allowed = st + sum(v.b.spec[y].get('cancel_delay', 0) or 0 for y in v.under(S) if v.b.spec[y]['type'] == 'job')
            if done[1] - sd[1] > allowed + 1e-9:
                return 'shutdown phase of %s lasted %s > shutdown_timeout %s' % (S, done[1] - sd[1], st)
        if done is not None:
            cancelled = [m for m in v.b.members[S]
                         if any(sd[0] < e[0] < done[0] for e in v.all(m, 'shutdown-cancelled'))]
            res = done[4].get('result')
            if res is not (not cancelled):
                return 'co_shutdown() of %s returned %r but cancelled handlers = %s' % (S, res, cancelled)
        # a later call sends nothing more and reports True
        for e in v.all(S, 'shutdown-done'):
            if e[4].get('call', 1) > 1 and done is not None and e[4].get('result') is not True:
                return 'repeated co_shutdown() of %s returned %r' % (S, e[4].get('result'))
        # members of a nested scheduler are shut down when that nested run ends
        end = run_end_event(v, S)
        if end is not None and end[2] in ('exit-ret', 'exit-raise') and S != v.b.top.name:
            for m in v.b.members[S]:
                e = v.first(m, 'shutdown')
                if e is None or e[0] > end[0]:
                    return 'job %s of nested %s not shut down by the end of the nested run' % (m, S)
    return None


def sample_predicates(b):
    out = {}
    for name, o in b.objs.items():
        if name == b.top.name and not hasattr(o, 'is_done'):
            continue
        out[name] = (o.is_idle(), o.is_scheduled(), o.is_running(), o.is_done())
    return out


def o_c14(v):
    prev = {}
    samples = v.r.samples
    if v.b.spec[v.b.top.name].get('rerun'):
        # second run of the same tree: what the API says before this run has reset its jobs is about the
        # previous run; the run under judgment starts with its first task creation
        creates = [e[0] for e in v.ev if e[2] == 'create']
        samples = [x for x in samples if creates and x[0] >= min(creates)]
    for tick, snap in samples:
        for name, (idle, sched, running, done) in snap.items():
            if idle == sched:
                return '%s: is_idle()=%r and is_scheduled()=%r' % (name, idle, sched)
            if done and not running:
                return '%s: is_done() without is_running()' % name
            if running and not sched:
                return '%s: is_running() without is_scheduled()' % name
            p = prev.get(name)
            if p is not None:
                if (p[1] and not sched) or (p[2] and not running) or (p[3] and not done):
                    return '%s: a life-cycle predicate reverted (%s -> %s)' % (name, p, (idle, sched, running, done))
            prev[name] = (idle, sched, running, done)
        # a job waiting for a slot is scheduled but not running; a body that began is running
    # the read-only queries of the API (graph queries, listings, exports) do not change what the inspection API says
    before_queries = {name: (o.is_idle(), o.is_scheduled(), o.is_running(), o.is_done())
                      for name, o in v.b.objs.items() if hasattr(o, 'is_done')}
    buf = io.StringIO()
    with contextlib.redirect_stdout(buf):
        for S in v.scheds():
            sch = v.b.objs[S]
            try:
                list(sch.entry_jobs())
                list(sch.exit_jobs())
                for m in v.b.members[S]:
                    sch.successors(v.b.objs[m])
                    sch.predecessors(v.b.objs[m])
                    sch.successors_downstream(v.b.objs[m])
                list(sch.iterate_jobs())
                sch.check_cycles()
                sch.list()
                sch.stats()
                repr(sch)
            except Exception as exc:
                return 'a read-only query raised after the run: %r' % (exc,)
        try:
            v.b.top.dot_format()
        except ValueError:
            pass                      # the known C20 finding (hollow nested scheduler)
    after_queries = {name: (o.is_idle(), o.is_scheduled(), o.is_running(), o.is_done())
                     for name, o in v.b.objs.items() if hasattr(o, 'is_done')}
    if before_queries != after_queries:
        bad = [n for n in before_queries if before_queries[n] != after_queries[n]]
        return '%s: read-only queries after the run changed the life-cycle predicates (%s -> %s)' % (
            bad[0], before_queries[bad[0]], after_queries[bad[0]])
    for name, o in v.b.objs.items():
        if name == v.b.top.name:
            continue
        created = v.first(name, 'create') is not None
        en = v.first(name, 'enter')
        ret = v.first(name, 'exit-ret')
        rai = v.first(name, 'exit-raise')
        if o.is_idle() is not (not created):
            return '%s: is_idle()=%r but task created=%r' % (name, o.is_idle(), created)
        if o.is_done() is not bool(ret or rai):
            return '%s: is_done()=%r but finished by returning/raising=%r' % (name, o.is_done(), bool(ret or rai))
        if ret:
            exp = ret[4].get('result') if v.is_sched(name) else o.retval
            if o.result() is not exp and o.result() != exp:
                return '%s: result() is %r, body returned %r' % (name, o.result(), exp)
            if o.raised_exception() is not None:
                return '%s returned but raised_exception() is %r' % (name, o.raised_exception())
        elif rai:
            exp = rai[4].get('exc') if v.is_sched(name) else o.exc
            if o.raised_exception() is not exp:
                return '%s: raised_exception() is %r, body raised %r' % (name, o.raised_exception(), exp)
        else:
            if o.raised_exception() is not None:
                return '%s neither returned nor raised but raised_exception() is %r' % (name, o.raised_exception())
        if created and en is None and o.is_running():
            return '%s never got its slot but is_running()' % name
    return None


ORACLES = {'C01': o_c01, 'C02': o_c02, 'C03': o_c03, 'C04': o_c04, 'C05': o_c05, 'C07': o_c07,
           'C08': o_c08, 'C09': o_c09, 'C10': lambda v: o_c10_single(v), 'C11': o_c11, 'C12': o_c12, 'C13': o_c13, 'C14': o_c14}


def run_oracle(prop, spec, external_cancel_at=None):
    if prop == 'C13' and spec.get('rerun'):
        # co_shutdown is sent once in a scheduler's life ("a later explicit shutdown() sends nothing more"): a
        # second run of the same tree is outside what C13 speaks of; the scenario is judged on its first run
        spec = dict(spec, rerun=False, rerun_edge=None)
    if prop == 'C14' and spec.get('rerun') and any(m['type'] == 'sched' for m in spec['members']):
        # the jobs of a nested scheduler keep the state of the previous run until the nested run begins: what the
        # API says then is about that earlier run; trees with nesting are judged on their first run
        spec = dict(spec, rerun=False, rerun_edge=None, session=None)
    sample = sample_predicates if prop == 'C14' else None
    b, r = execute(spec, external_cancel_at=external_cancel_at, sample=sample)
    v = View(b, r)
    if prop != 'C03' and r.hang:
        # wedged runs are C03's business, except where the statement itself says the run ends
        if prop in ('C05', 'C08', 'C09', 'C11'):
            for S in v.scheds():
                sp = b.spec[S]
                began = v.first(S, 'enter')
                if prop == 'C08' and sp.get('timeout') is not None and began and run_end_event(v, S) is None \
                        and b.loop.time() > began[1] + sp['timeout']:
                    return 'scheduler %s (timeout %s, begun at %s) never ends: the run is wedged at %s (%s)' % (
                        S, sp['timeout'], began[1], b.loop.time(), r.hang)
                if prop != 'C08' and began and run_end_event(v, S) is None and v.all(S, 'shutdown') == [] and any(
                        v.first(m, 'cancelled') for m in b.members[S]):
                    return 'scheduler %s cancelled its jobs but never ends: the run is wedged (%s)' % (S, r.hang)
        return None
    return ORACLES[prop](v)


def o_c10_single(v):
    """one run: a nested scheduler is one job of its parent; a failed nested run is contained by a
    non-critical scheduler (False is its result) and goes through a critical one with the same
    exception object (the verdict/exception rules are those of C04, applied at every level)"""
    err = o_c04(v)
    if err:
        return err
    # "a single job that starts when its requirements have finished and finishes when its own run does": the
    # ordering rule of C01, which treats a nested scheduler as one job
    err = o_c01(v)
    if err:
        return err
    for S in v.scheds():
        if S not in v.b.parent:
            continue
        obj = v.b.objs[S]
        sp = v.b.spec[S]
        end = run_end_event(v, S)
        if end is None:
            continue
        if end[2] == 'exit-ret':
            try:
                seen = obj.result()
            except Exception as exc:
                return 'result() of nested %s whose run returned %r raises %r' % (S, end[4].get('result'), exc)
            if seen is not end[4].get('result'):
                return 'parent reads %r as the result of nested %s whose run returned %r' % (seen, S, end[4].get('result'))
            if obj.raised_exception() is not None:
                return 'nested %s returned but raised_exception() is %r' % (S, obj.raised_exception())
        if end[2] == 'exit-raise':
            if not sp.get('critical'):
                return 'non-critical nested %s let %r out of its run' % (S, end[4].get('exc'))
            if obj.raised_exception() is not end[4].get('exc'):
                return 'nested %s raised %r but its parent sees %r' % (S, end[4].get('exc'), obj.raised_exception())
    if v.r.exc is not None and not isinstance(v.r.exc, asyncio.CancelledError):
        chain = [e for e in v.ev if e[2] == 'exit-raise' and e[4].get('exc') is v.r.exc]
        if not chain and not isinstance(v.r.exc, TimeoutError):
            return 'the exception %r out of the top-level run is not the object any job or scheduler raised' % (v.r.exc,)
    return None


# ---- relational properties: C06 (non-critical failure is invisible), C10 (nesting is transparent)
def timed(v, names=None):
    out = {}
    for e in v.ev:
        if e[2] in ('enter',) and (names is None or e[3] in names):
            out[e[3]] = e[1]
    return out


def c06_pair(spec, rng):
    """switch a subset of non-critical returning jobs to raising"""
    s2 = copy.deepcopy(spec)
    flipped = []
    for sp in all_specs(s2):
        if sp['type'] == 'job' and not sp.get('critical') and sp.get('outcome') == 'ret' and rng.random() < 0.5:
            sp['outcome'] = 'raise'
            flipped.append(sp['name'])
    return s2, flipped


def o_c06(spec, spec2, flipped):
    b1, r1 = execute(spec)
    b2, r2 = execute(spec2)
    if r1.hang or r2.hang:
        if bool(r1.hang) != bool(r2.hang):
            return 'switching %s from returning to raising changes termination (%s / %s)' % (flipped, r1.hang, r2.hang)
        return None
    v1, v2 = View(b1, r1), View(b2, r2)

    def norm(v):
        out = []
        for e in v.ev:
            ev = 'exit' if e[2] in ('exit-ret', 'exit-raise') and e[3] in flipped else e[2]
            out.append((e[1], ev, e[3]))
        return sorted(out)
    n1, n2 = norm(v1), norm(v2)
    if n1 != n2:
        diff = [x for x in n1 if x not in n2] + [x for x in n2 if x not in n1]
        d = [x for x in n1 if x not in n2][:3] + [x for x in n2 if x not in n1][:3]
        return 'switching %s from returning to raising changes the run: %s' % (flipped, d)
    if (r1.verdict, type(r1.exc)) != (r2.verdict, type(r2.exc)):
        return 'verdict changes: %r/%r vs %r/%r' % (r1.verdict, r1.exc, r2.verdict, r2.exc)

    # "with the same results": whose exception a failed scheduler lets out must not depend on the flip either
    def origin(b, exc):
        for n_, o in b.objs.items():
            if getattr(o, 'exc', None) is exc:
                return n_
        return type(exc).__name__

    def outcomes(b, v, r):
        out = {}
        for e in v.ev:
            if e[2] == 'exit-raise' and v.is_sched(e[3]):
                out[e[3]] = origin(b, e[4].get('exc'))
        if r.exc is not None:
            out['<run>'] = origin(b, r.exc)
        return out
    o1, o2 = outcomes(b1, v1, r1), outcomes(b2, v2, r2)
    if o1 != o2:
        return 'switching %s from returning to raising changes whose exception a scheduler raises: %s vs %s' % (flipped, o1, o2)
    for f in flipped:
        o = b2.objs[f]
        if v2.first(f, 'exit-raise') and o.raised_exception() is not o.exc:
            return 'exception of %s not retrievable' % f
    return None


def flatten(spec):
    """replace every nested scheduler by its members (C10): entries take over its requirements, and
    what required it requires its exit members"""
    sp = copy.deepcopy(spec)

    def flat(s):
        members, edges = [], []
        idx = {}
        entries, exits = {}, {}
        for i, m in enumerate(s['members']):
            if m['type'] == 'sched':
                sub, sub_edges = flat(m)
                base = len(members)
                members.extend(sub)
                edges.extend((a + base, b + base) for a, b in sub_edges)
                has_req = {a for a, b in sub_edges}
                is_req = {b for a, b in sub_edges}
                entries[i] = [base + k for k in range(len(sub)) if k not in has_req]
                exits[i] = [base + k for k in range(len(sub)) if k not in is_req]
            else:
                entries[i] = exits[i] = [len(members)]
                members.append(m)
        for a, b in s['edges']:
            for x in entries[a]:
                for y in exits[b]:
                    edges.append((x, y))
        return members, edges
    members, edges = flat(sp)
    top = dict(sp)
    top['members'], top['edges'] = members, edges
    return top


def gen_c10(rng):
    """critical nested schedulers without window, timeout or forever jobs; non-empty"""
    def tree(depth, prefix):
        n = rng.randint(1, 3)
        mem = []
        for i in range(n):
            nm = '%s%d' % (prefix, i)
            if depth < 2 and rng.random() < 0.4:
                t = tree(depth + 1, nm + '_')
                t['name'] = nm
                mem.append(t)
            else:
                mem.append(dict(name=nm, type='job', duration=rng.choice([0, 1, 2, 3]), outcome='ret',
                                critical=True, forever=False, cancel_delay=0, shutdown_duration=0))
        edges = [(a, b) for a in range(n) for b in range(a) if rng.random() < 0.5]
        return dict(name=prefix + 'S', type='sched', members=mem, edges=edges, window=None, timeout=None,
                    shutdown_timeout=1, critical=True, forever=False)
    t = tree(0, 'm')
    t['name'] = 'top'
    return t


def gen_session(rng, spec, runs=None):
    """random edits of the tree between runs of the same top scheduler (admissibility for C03 is kept: no
    requirement on a forever job, windows stay larger than the number of members that may never end, every
    scheduler keeps a non-forever job)"""
    scheds = [sp for sp in all_specs(spec) if sp['type'] == 'sched']
    sess = []
    counter = [0]
    state = {sp['name']: [m['name'] for m in sp['members']] for sp in scheds}
    kinds = {m['name']: m for sp in scheds for m in sp['members']}
    plain = lambda n: kinds[n]['type'] == 'job' and not kinds[n].get('forever') and kinds[n].get('duration') is not None
    for _k in range(runs or rng.choice([1, 1, 2])):
        steps = []
        for _ in range(rng.randint(1, 3)):
            sp = rng.choice(scheds)
            S = sp['name']
            mem = state[S]
            r = rng.random()
            if r < 0.25:
                steps.append(['query', S])
            elif r < 0.45:
                never = sum(1 for n in mem if not plain(n))
                steps.append(['window', S, rng.choice([None] + [w for w in (1, 2, 3, 4) if w > never])])
            elif r < 0.65:
                idx = [i for i, n in enumerate(mem) if plain(n)]
                if len(idx) >= 2:
                    j, i = sorted(rng.sample(idx, 2))
                    steps.append(['edge', S, i, j])
            elif r < 0.85:
                counter[0] += 1
                js = dict(name='%s_new%d' % (S, counter[0]), type='job', duration=rng.choice([0, 1, 2]),
                          outcome='raise' if rng.random() < 0.2 else 'ret', critical=False, forever=rng.random() < 0.2,
                          cancel_delay=0, shutdown_duration=0, yields=rng.choice([0, 0, 1, 2]))
                kinds[js['name']] = js
                mem.append(js['name'])
                steps.append(['add', S, js])
            else:
                cand = [n for n in mem if plain(n)]
                if len(cand) >= 2:
                    n = rng.choice(cand)
                    # positions of the remaining members shift: later 'edge' steps use the updated list
                    mem.remove(n)
                    steps.append([rng.choice(['remove', 'bypass']), S, n])
        sess.append(steps)
    return sess


def gen_chain(rng):
    """trees up to depth 3 with many failing jobs and every mix of critical flags along the chains"""
    sp = gen_tree(rng, maxdepth=3, windows=rng.random() < 0.3, timeouts=rng.random() < 0.3, nmax=3)
    for x in all_specs(sp):
        if x['type'] == 'job':
            if rng.random() < 0.3:
                x['outcome'] = 'raise'
            x['forever'] = False
            if x['duration'] is None:
                x['duration'] = 3
        else:
            x['critical'] = rng.random() < 0.6
    return sp


def o_c10(spec):
    b1, r1 = execute(spec)
    b2, r2 = execute(flatten(spec))
    v1, v2 = View(b1, r1), View(b2, r2)
    atoms = [n for n, sp in b1.spec.items() if sp['type'] == 'job']
    t1, t2 = timed(v1, atoms), timed(v2, atoms)
    if t1 != t2:
        d = {k: (t1.get(k), t2.get(k)) for k in atoms if t1.get(k) != t2.get(k)}
        return 'nested vs flattened start times differ: %s' % d
    if r1.verdict != r2.verdict:
        return 'nested vs flattened verdicts differ'
    return None
