"""
replay/probe_env.py -- probes of the environment contracts (DESIGN 4.3) against the interpreter that runs them.

The contracts E1-E7 on asyncio are ASSUMED by the proofs.  These probes do not prove them; they check, on every
run and under each interpreter the bounded part uses, that the running asyncio behaves as each clause says on
small concrete cases.  A probe that fails means the environment differs from what the contracts assume: the
check stops with exit 3 (checker error), it is never reported as a violation of a property.

usage: probe_env.py   -> last stdout line is a JSON object {name: [ok, detail]}
"""
import asyncio
import json
import sys
import time


def probe(fn):
    PROBES.append(fn)
    return fn


PROBES = []


class Boom(Exception):
    pass


async def sleeper(d, result=None, exc=None):
    await asyncio.sleep(d)
    if exc is not None:
        raise exc
    return result


@probe
async def E1_wait_partitions_and_returns_on_first_completion():
    ts = {asyncio.ensure_future(sleeper(0.01, 'a')), asyncio.ensure_future(sleeper(0.3, 'b')),
          asyncio.ensure_future(sleeper(0.01, exc=Boom()))}
    done, pending = await asyncio.wait(ts, return_when=asyncio.FIRST_COMPLETED)
    ok = bool(done) and done | pending == ts and not (done & pending) and all(t.done() for t in done) \
        and not any(t.done() for t in pending)
    for t in pending:
        t.cancel()
    await asyncio.wait(pending)
    for t in done:
        t.exception()
    return ok, 'done=%d pending=%d' % (len(done), len(pending))


@probe
async def E1_wait_timeout_returns_empty_batch_and_cancels_nothing():
    ts = {asyncio.ensure_future(sleeper(0.3))}
    t0 = time.time()
    done, pending = await asyncio.wait(ts, timeout=0.02, return_when=asyncio.FIRST_COMPLETED)
    ok = not done and pending == ts and not any(t.cancelled() or t.done() for t in ts) and time.time() - t0 >= 0.015
    d2, p2 = await asyncio.wait(ts, timeout=0)
    ok = ok and not d2 and p2 == ts
    for t in ts:
        t.cancel()
    await asyncio.wait(ts)
    return ok, 'empty batch after %.3fs' % (time.time() - t0)


@probe
async def E1_wait_on_empty_set_raises():
    try:
        await asyncio.wait(set())
    except ValueError:
        return True, 'ValueError'
    return False, 'no exception'


@probe
async def E1_wait_without_timeout_waits_for_all():
    ts = {asyncio.ensure_future(sleeper(0.01)), asyncio.ensure_future(sleeper(0.03))}
    done, pending = await asyncio.wait(ts)
    return done == ts and not pending, ''


@probe
async def E1_cancelling_the_waiter_does_not_cancel_the_tasks():
    t = asyncio.ensure_future(sleeper(0.2))

    async def waiter():
        await asyncio.wait({t})
    w = asyncio.ensure_future(waiter())
    await asyncio.sleep(0.01)
    w.cancel()
    try:
        await w
    except asyncio.CancelledError:
        pass
    ok = not t.done()
    t.cancel()
    await asyncio.wait({t})
    return ok, ''


@probe
async def E2_create_task_does_not_start_the_coroutine():
    flag = []

    async def body():
        flag.append(1)
    t = asyncio.create_task(body())
    ok = not flag and not t.done() and t._state == 'PENDING'
    await t
    return ok and flag == [1], ''


@probe
async def E3_task_states_are_the_three_constants_and_final():
    a = asyncio.ensure_future(sleeper(0, 'v'))
    b = asyncio.ensure_future(sleeper(0, exc=Boom()))
    c = asyncio.ensure_future(sleeper(1))
    await asyncio.sleep(0.01)
    c.cancel()
    await asyncio.wait({a, b, c})
    ok = (a._state, b._state, c._state) == ('FINISHED', 'FINISHED', 'CANCELLED') \
        and asyncio.futures._FINISHED == 'FINISHED' \
        and a._result == 'v' and a._exception is None and isinstance(b._exception, Boom) and c._exception is None
    before = (a._state, a._result, b._state, b._exception)
    a.cancel(), b.cancel()
    await asyncio.sleep(0)
    ok = ok and before == (a._state, a._result, b._state, b._exception)
    return ok, repr((a._state, b._state, c._state))


@probe
async def E4_cancel_has_no_effect_on_a_finished_task_and_ends_a_pending_one():
    a = asyncio.ensure_future(sleeper(0, 'v'))
    await a
    r1 = a.cancel()
    b = asyncio.ensure_future(sleeper(1))
    await asyncio.sleep(0)
    r2 = b.cancel()
    await asyncio.wait({b})
    never = asyncio.ensure_future(sleeper(1))
    never.cancel()          # cancelled before it ever ran: the body never starts
    await asyncio.wait({never})
    return r1 is False and a.result() == 'v' and r2 is True and b.cancelled() and never.cancelled(), ''


@probe
async def E4b_exception_retrieval_changes_no_state_the_package_reads():
    b = asyncio.ensure_future(sleeper(0, exc=Boom()))
    await asyncio.wait({b})
    before = (b._state, b._exception, b._result, b.done())
    n = [0]

    async def ticker():
        while True:
            n[0] += 1
            await asyncio.sleep(0)
    tk = asyncio.ensure_future(ticker())
    await asyncio.sleep(0)
    k = n[0]
    e = b.exception()
    same_iteration = n[0] == k
    tk.cancel()
    return e is before[1] and before == (b._state, b._exception, b._result, b.done()) and same_iteration, ''


@probe
async def E5_queue_bounds_put_and_get_on_non_empty_does_not_suspend():
    q = asyncio.Queue(maxsize=2)
    await q.put(1)
    await q.put(1)
    blocked = asyncio.ensure_future(q.put(1))
    await asyncio.sleep(0.01)
    ok = not blocked.done() and q.qsize() == 2 and q.full()
    n = [0]

    async def ticker():
        while True:
            n[0] += 1
            await asyncio.sleep(0)
    tk = asyncio.ensure_future(ticker())
    await asyncio.sleep(0)
    k = n[0]
    await q.get()
    ok = ok and n[0] == k                  # no other coroutine ran during the get
    await asyncio.sleep(0.01)
    ok = ok and blocked.done() and q.qsize() == 2
    tk.cancel()
    return ok, 'qsize=%d' % q.qsize()


@probe
async def E5_cancelled_put_leaves_the_queue_unchanged_and_unbounded_queue_never_blocks():
    q = asyncio.Queue(maxsize=1)
    await q.put(1)
    blocked = asyncio.ensure_future(q.put(1))
    await asyncio.sleep(0.01)
    blocked.cancel()
    await asyncio.wait({blocked})
    ok = q.qsize() == 1 and blocked.cancelled()
    u = asyncio.Queue(maxsize=0)
    for _ in range(50):
        await asyncio.wait_for(u.put(1), 0.5)
    n = asyncio.Queue(maxsize=None) if False else None
    return ok and u.qsize() == 50 and not u.full(), ''


@probe
async def E7_clock_does_not_go_back():
    a = time.time()
    await asyncio.sleep(0.01)
    b = time.time()
    return b >= a + 0.005, '%.4f' % (b - a)


@probe
async def A_COOP_no_other_coroutine_runs_between_two_awaits():
    n = [0]

    async def ticker():
        while True:
            n[0] += 1
            await asyncio.sleep(0)
    tk = asyncio.ensure_future(ticker())
    await asyncio.sleep(0)
    k = n[0]
    s = 0
    for i in range(20000):
        s += i
    ok = n[0] == k
    tk.cancel()
    return ok, ''


def main():
    out = {}

    async def run_all():
        for fn in PROBES:
            try:
                ok, detail = await fn()
            except Exception as exc:        # a probe that crashes is a failed probe
                ok, detail = False, 'exception %r' % (exc,)
            out[fn.__name__] = [bool(ok), detail]
    loop = asyncio.new_event_loop()
    asyncio.set_event_loop(loop)
    loop.set_exception_handler(lambda l, c: None)
    loop.run_until_complete(run_all())
    loop.close()
    out['python'] = [True, '%d.%d.%d' % sys.version_info[:3]]
    print(json.dumps(out))
    return 0 if all(v[0] for v in out.values()) else 1


if __name__ == '__main__':
    sys.exit(main())
