"""
replay/bounded.py -- bounded concrete checks of the REAL code (run with /venv/bin/python,
PYTHONPATH = the repository under test).

Role (DESIGN.md 8 and 9): (a) CPython cross-check of the contracts' oracles, (b) replay of
counterexamples, (c) the bounded stand-in that decides when an obligation is left undecided.
It is labelled `bounded` in the evidence and never counted as proved.

usage: bounded.py Cnn --tier quick|thorough --seed N      -> last stdout line is a JSON summary
       bounded.py Cnn --replay-case '<json case>'          -> exit 1 if the case fails
"""
import io
import itertools
import json
import random
import sys
import contextlib

import asynciojobs
from asynciojobs import AbstractJob, Job, PureScheduler, Scheduler, Sequence


class J(AbstractJob):
    """atomic job with a name; never run by the graph checks"""
    def __init__(self, name, **kw):
        self.name = name
        super().__init__(label=name, **kw)

    def __repr__(self):
        return 'J(%s)' % self.name

    async def co_run(self):
        return self.name

    async def co_shutdown(self):
        pass


# ----------------------------------------------------------------------------- graph helpers
def all_digraphs(n):
    pairs = [(a, b) for a in range(n) for b in range(n) if a != b]
    for mask in range(1 << len(pairs)):
        yield [pairs[i] for i in range(len(pairs)) if mask >> i & 1]


def random_digraph(rng, n, p):
    return [(a, b) for a in range(n) for b in range(n) if a != b and rng.random() < p]


def random_dag(rng, n, p):
    perm = list(range(n))
    rng.shuffle(perm)
    return [(perm[a], perm[b]) for a in range(n) for b in range(a) if rng.random() < p]


def is_acyclic(n, edges):
    """edges (a, b): a requires b"""
    req = {i: set() for i in range(n)}
    for a, b in edges:
        req[a].add(b)
    done = set()
    while True:
        ready = [i for i in range(n) if i not in done and req[i] <= done]
        if not ready:
            break
        done.update(ready)
    return len(done) == n


def closure(succ, starts):
    """nodes reachable from starts through one or more links"""
    out = set()
    todo = [y for s in starts for y in succ[s]]
    while todo:
        y = todo.pop()
        if y in out:
            continue
        out.add(y)
        todo.extend(succ[y])
    return out


def build(n, edges, cls=PureScheduler, forever=(), critical=(), sched_kw=None, kinds=None):
    """kinds[i]: 'j' atomic job, 'e' empty nested Scheduler, 's' nested Scheduler holding one job"""
    jobs = []
    for i in range(n):
        k = (kinds or 'j' * n)[i]
        if k == 'j':
            jobs.append(J('j%d' % i, forever=(i in forever), critical=(i in critical)))
        elif k == 'e':
            jobs.append(Scheduler(label='e%d' % i))
        else:
            jobs.append(Scheduler(J('in%d' % i), label='s%d' % i))
    for a, b in edges:
        jobs[a].requires(jobs[b])
    s = cls(*jobs, **(sched_kw or {}))
    return s, jobs


def quiet(fn, *a, **kw):
    buf = io.StringIO()
    with contextlib.redirect_stdout(buf):
        r = fn(*a, **kw)
    return r, buf.getvalue()


# ----------------------------------------------------------------------------- C15
def c15_cases(tier, rng):
    maxn = 4 if tier == 'quick' else 5
    for n in range(0, maxn + 1):
        for edges in all_digraphs(n):
            if n == 5 and rng.random() > 0.02:      # 2^20 graphs: sampled even in thorough
                continue
            for place in ('pure', 'flat', 'nested') + (('wrapped', 'wrapped2') if n <= 3 else ()):
                yield {'kind': 'c15', 'n': n, 'edges': edges, 'place': place}
    k = 300 if tier == 'quick' else 5000
    for _ in range(k):
        n = rng.randint(5, 8)
        edges = random_digraph(rng, n, rng.choice([0.1, 0.2, 0.35]))
        yield {'kind': 'c15', 'n': n, 'edges': edges, 'place': rng.choice(['pure', 'flat', 'nested', 'wrapped', 'wrapped2'])}
    # members that are themselves nested schedulers (empty ones included: an empty Scheduler is falsy)
    for n in range(1, 4):
        for edges in all_digraphs(n):
            for kinds in itertools.product('jes', repeat=n):
                if set(kinds) == {'j'}:
                    continue
                yield {'kind': 'c15', 'n': n, 'edges': edges, 'place': 'flat', 'kinds': ''.join(kinds)}
    for _ in range(k):
        n = rng.randint(4, 6)
        yield {'kind': 'c15', 'n': n, 'edges': random_digraph(rng, n, rng.choice([0.15, 0.3])),
               'place': rng.choice(['flat', 'nested']), 'kinds': ''.join(rng.choice('jjes') for _ in range(n))}
    # jobs scanned k times in one scheduler, then moved (removed, and given to a fresh scheduler, nested or not):
    # whatever an earlier scan left on the jobs must not matter
    for n in range(1, 5):
        for edges in all_digraphs(n):
            if n == 4 and rng.random() > 0.15:
                continue
            for scans in range(0, 4):
                yield {'kind': 'c15-move', 'n': n, 'edges': edges, 'scans': scans, 'nested': (scans + len(edges)) % 2 == 0}
    for _ in range(k // 3):
        n = rng.randint(2, 6)
        yield {'kind': 'c15-mutate', 'n': n, 'edges': random_dag(rng, n, 0.4),
               'extra': [(rng.randrange(n), rng.randrange(n)) for _ in range(3)]}


def c15_run(case):
    n, edges = case['n'], [tuple(e) for e in case['edges']]
    if case['kind'] == 'c15-mutate':
        # graph mutated back and forth between cyclic and acyclic
        s, jobs = build(n, edges, Scheduler)
        cur = set(edges)
        for a, b in [tuple(x) for x in case['extra']]:
            if a == b:
                continue
            jobs[a].requires(jobs[b])
            cur.add((a, b))
            if s.check_cycles() != is_acyclic(n, cur):
                return 'check_cycles wrong after adding %s' % ((a, b),)
            jobs[a].requires(jobs[b], remove=True)
            cur.discard((a, b))
            if s.check_cycles() != is_acyclic(n, cur):
                return 'check_cycles wrong after removing %s' % ((a, b),)
        return None
    acyc = is_acyclic(n, edges)
    kinds = case.get('kinds')
    if case['kind'] == 'c15-move':
        s0, jobs = build(n, edges, Scheduler)
        for _ in range(case['scans']):
            if s0.check_cycles() != acyc:
                return 'check_cycles() wrong on the first scheduler'
        for j in jobs:
            s0.remove(j)
        s = Scheduler(*jobs)
        top = Scheduler(s) if case['nested'] else s
        if top.check_cycles() != acyc:
            return 'after moving the jobs (scanned %d times before) to a fresh scheduler: check_cycles()=%r but acyclic=%r' % (
                case['scans'], top.check_cycles(), acyc)
        try:
            order = list(s.topological_order())
        except Exception:
            order = None
        if acyc and (order is None or sorted(map(id, order)) != sorted(map(id, jobs))):
            return 'after moving the jobs to a fresh scheduler: topological_order() does not yield every job once'
        if not acyc and order is not None:
            return 'after moving the jobs to a fresh scheduler: topological_order() did not raise on a cyclic graph'
        return None
    if case['place'] == 'pure':
        s, jobs = build(n, edges, PureScheduler, kinds=kinds)
        top = s
    elif case['place'] == 'flat':
        s, jobs = build(n, edges, Scheduler, kinds=kinds)
        top = s
    elif case['place'] == 'wrapped':
        # the graph sits in a scheduler that is the only job of a wrapper (any depth counts)
        s, jobs = build(n, edges, Scheduler, kinds=kinds)
        top = Scheduler(Scheduler(s))
    elif case['place'] == 'wrapped2':
        s, jobs = build(n, edges, Scheduler, kinds=kinds)
        a = J('before')
        w = Scheduler(Scheduler(s))
        w.requires(a)
        top = Scheduler(a, w)         # (a PureScheduler only answers for its own level: statement of C15)
    else:
        s, jobs = build(n, edges, Scheduler, kinds=kinds)
        a, b = J('before'), J('after')
        s.requires(a)
        b.requires(s)
        top = Scheduler(a, s, b)
    r = top.check_cycles()
    if r is not acyc and r != acyc:
        return 'check_cycles()=%r but acyclic=%r' % (r, acyc)
    if r not in (True, False):
        return 'check_cycles() returned %r' % (r,)
    # `verbose` only adds messages: same answer with verbose schedulers above the graph, then everywhere
    above = [x for x in top.iterate_jobs(scan_schedulers=True) if isinstance(x, PureScheduler) and x is not s] + [top]
    for group, what in ((above, 'on the schedulers above the graph'), ([s], 'on every scheduler')):
        for x in group:
            x.verbose = True
        try:
            rv, _ = quiet(top.check_cycles)
        except Exception as exc:                                    # pylint: disable=broad-except
            return 'check_cycles() with verbose=True %s raised %r' % (what, exc)
        if rv is not acyc and rv != acyc:
            return 'check_cycles()=%r with verbose=True %s, but acyclic=%r' % (rv, what, acyc)
    for x in above + [s]:
        x.verbose = False
    # topological_order of the scheduler holding the graph
    order, raised = [], False
    try:
        for j in s.topological_order():
            order.append(j)
            if len(order) > 4 * n + 4:
                return 'topological_order yields too many jobs (looping)'
    except Exception:
        raised = True
    if acyc:
        if raised:
            return 'topological_order raised on an acyclic graph'
        if sorted(id(j) for j in order) != sorted(id(j) for j in jobs):
            return 'topological_order does not yield every job exactly once'
        pos = {id(j): i for i, j in enumerate(order)}
        for a_, b_ in edges:
            if pos[id(jobs[a_])] < pos[id(jobs[b_])]:
                return 'job yielded before its requirement'
        # list() numbers jobs accordingly
        _, out = quiet(top.list)
        for a_, b_ in edges:
            ia, ib = jobs[a_]._sched_id, jobs[b_]._sched_id
            if ia is None or ib is None or not (int(ib) < int(ia)):
                return 'list() numbering not topological: %s requires %s' % (ia, ib)
        ids = [j._sched_id for j in top.iterate_jobs(scan_schedulers=True) if j is not top]
        if len(set(ids)) != len(ids):
            return 'duplicate ids'
    else:
        if not raised:
            return 'topological_order did not raise on a cyclic graph (yielded %d of %d)' % (len(order), n)
    return None


# ----------------------------------------------------------------------------- C17
def c17_cases(tier, rng):
    maxn = 4 if tier == 'quick' else 5
    for n in range(1, maxn + 1):
        for edges in all_digraphs(n):
            if not is_acyclic(n, edges):
                continue
            if n == 5 and rng.random() > 0.1:
                continue
            yield {'kind': 'c17', 'n': n, 'edges': edges, 'forever': [], 'seed': rng.randrange(1 << 30)}
    k = 200 if tier == 'quick' else 4000
    for _ in range(k):
        n = rng.randint(4, 12 if tier != 'quick' else 8)
        edges = random_dag(rng, n, rng.choice([0.15, 0.3, 0.5]))
        forever = [i for i in range(n) if rng.random() < 0.25]
        yield {'kind': 'c17', 'n': n, 'edges': edges, 'forever': forever, 'seed': rng.randrange(1 << 30)}
    # members that are nested schedulers, empty ones included (an empty Scheduler is falsy): a nested scheduler is a job
    for n in range(1, 4):
        for edges in all_digraphs(n):
            if not is_acyclic(n, edges):
                continue
            for kinds in itertools.product('jes', repeat=n):
                if set(kinds) != {'j'}:
                    yield {'kind': 'c17', 'n': n, 'edges': edges, 'forever': [], 'seed': rng.randrange(1 << 30),
                           'kinds': ''.join(kinds)}
    for _ in range(k // 2):
        n = rng.randint(4, 7)
        yield {'kind': 'c17', 'n': n, 'edges': random_dag(rng, n, rng.choice([0.2, 0.4])), 'forever': [],
               'seed': rng.randrange(1 << 30), 'kinds': ''.join(rng.choice('jjes') for _ in range(n))}
    for _ in range(k // 2):
        yield {'kind': 'c17-tree', 'seed': rng.randrange(1 << 30)}
    for _ in range(k // 2):
        n = rng.randint(3, 6)
        yield {'kind': 'c17-edit', 'n': n, 'edges': random_dag(rng, n, 0.4), 'seed': rng.randrange(1 << 30)}


def ids(xs):
    return sorted(id(x) for x in xs)


def c17_queries(s, jobs, n, edges, forever, rng, exhaustive_starts):
    req = {i: set() for i in range(n)}
    suc = {i: set() for i in range(n)}
    for a, b in edges:
        req[a].add(b)
        suc[b].add(a)
    if exhaustive_starts:
        starts_list = [list(c) for k in (1, 2) for c in itertools.combinations(range(n), k)]
    else:
        starts_list = [rng.sample(range(n), rng.randint(1, min(3, n))) for _ in range(4)]
    for st in starts_list:
        sj = [jobs[i] for i in st]
        exp = set().union(*[req[i] for i in st])
        got = s.predecessors(*sj)
        if ids(got) != ids(jobs[i] for i in exp):
            return 'predecessors(%s) wrong' % st
        exp = set().union(*[suc[i] for i in st])
        got = list(s.successors(*sj))
        if ids(got) != ids(jobs[i] for i in exp):
            return 'successors(%s) wrong: %s' % (st, got)
        exp = closure(req, st)
        got = s.predecessors_upstream(*sj)
        if ids(got) != ids(jobs[i] for i in exp):
            return 'predecessors_upstream(%s) wrong' % st
        exp = closure(suc, st)
        got = s.successors_downstream(*sj)
        if ids(got) != ids(jobs[i] for i in exp):
            return 'successors_downstream(%s) wrong' % st
    exp = [i for i in range(n) if not req[i]]
    if ids(s.entry_jobs()) != ids(jobs[i] for i in exp):
        return 'entry_jobs wrong'
    exp = [i for i in range(n) if not suc[i] and i not in forever]
    if ids(s.exit_jobs()) != ids(jobs[i] for i in exp):
        return 'exit_jobs() wrong'
    exp = [i for i in range(n) if not suc[i]]
    if ids(s.exit_jobs(discard_forever=False)) != ids(jobs[i] for i in exp):
        return 'exit_jobs(discard_forever=False) wrong'
    return None


def random_tree(rng, depth=0, maxdepth=3):
    """returns (scheduler, atomic jobs under it, schedulers under it including itself)"""
    n = rng.randint(0, 3)
    members, atoms, scheds = [], [], []
    for i in range(n):
        if depth < maxdepth and rng.random() < 0.4:
            sub, a2, s2 = random_tree(rng, depth + 1, maxdepth)
            members.append(sub)
            atoms += a2
            scheds += s2
        else:
            j = J('a%d_%d' % (depth, rng.randrange(1000)))
            members.append(j)
            atoms.append(j)
    # a DAG between the members
    for a in range(len(members)):
        for b in range(a):
            if rng.random() < 0.4:
                members[a].requires(members[b])
    cls = Scheduler if depth > 0 or rng.random() < 0.7 else PureScheduler
    s = cls(*members)
    return s, atoms, scheds + [s]


def c17_run(case):
    rng = random.Random(case['seed'])
    if case['kind'] == 'c17-tree':
        s, atoms, scheds = random_tree(rng)
        got = list(s.iterate_jobs())
        if ids(got) != ids(atoms):
            return 'iterate_jobs() does not visit every atomic job exactly once'
        got = list(s.iterate_jobs(scan_schedulers=True))
        if ids(got) != ids(atoms + scheds):
            return 'iterate_jobs(scan_schedulers=True) wrong'
        # two traversals in progress at once see the same jobs
        pairs = list(zip(s.iterate_jobs(), s.iterate_jobs()))
        if len(pairs) != len(atoms) or any(a is not b for a, b in pairs):
            return 'two iterate_jobs() traversals in lockstep disagree'
        # requirements among the jobs (also dangling ones, after a member that others require was removed and the
        # tree not sanitized) do not matter to a traversal
        if len(atoms) >= 2:
            a, b = rng.sample(atoms, 2)
            b.requires(a)
            owners = [sc for sc in [s] + scheds if a in sc.jobs]
            if owners:
                owners[0].remove(a)
                rest = [x for x in atoms if x is not a]
                try:
                    got = list(s.iterate_jobs())
                except Exception as exc:
                    return 'iterate_jobs() raises %r after a member was removed' % (exc,)
                if ids(got) != ids(rest):
                    return 'iterate_jobs() wrong after a member was removed'
        return None
    n, edges = case['n'], [tuple(e) for e in case['edges']]
    if case['kind'] == 'c17-edit':
        s, jobs = build(n, edges)
        cur = set(edges)
        err = c17_queries(s, jobs, n, cur, set(), rng, False)
        if err:
            return 'before edits: ' + err
        for _ in range(4):
            # one to three primitive edits between two rounds of queries; "retarget" keeps the
            # number of requirements of a job and the member set unchanged
            for _e in range(rng.randint(1, 3)):
                kind = rng.choice(['toggle', 'retarget', 'retarget'])
                a, b = rng.randrange(n), rng.randrange(n)
                if kind == 'retarget':
                    outs = [e for e in cur if e[0] == a]
                    if not outs:
                        continue
                    old = rng.choice(outs)
                    if a == b or (a, b) in cur or not is_acyclic(n, (cur - {old}) | {(a, b)}):
                        continue
                    jobs[a].requires(jobs[old[1]], remove=True)
                    jobs[a].requires(jobs[b])
                    cur.discard(old)
                    cur.add((a, b))
                    continue
                if a == b:
                    continue
                if (a, b) in cur:
                    jobs[a].requires(jobs[b], remove=True)
                    cur.discard((a, b))
                elif is_acyclic(n, cur | {(a, b)}):
                    jobs[a].requires(jobs[b])
                    cur.add((a, b))
            err = c17_queries(s, jobs, n, cur, set(), rng, False)
            if err:
                return 'after edits: ' + err
        return None
    forever = set(case.get('forever', []))
    s, jobs = build(n, edges, forever=forever, kinds=case.get('kinds'))
    err = c17_queries(s, jobs, n, edges, forever, rng, n <= 4)
    if err or not n:
        return err
    # a scheduler that is not closed (some members require jobs that are not members: an outsider, or a job that was
    # removed): predecessors / predecessors_upstream still answer with members only ("exactly the members it requires")
    out = [J('outsider-%d' % k) for k in range(2)]
    out[1].requires(out[0])
    for i in range(n):
        if rng.random() < 0.4:
            jobs[i].requires(rng.choice(out))
    req = {i: {b for (a, b) in edges if a == i} for i in range(n)}
    for st in ([[i] for i in range(n)] + [rng.sample(range(n), min(2, n))]):
        sj = [jobs[i] for i in st]
        got = s.predecessors(*sj)
        exp = set().union(*[req[i] for i in st])
        if ids(got) != ids(jobs[i] for i in exp):
            return 'predecessors(%s) on a scheduler that is not closed: %s, members required are %s' % (st, got, sorted(exp))
        got = s.predecessors_upstream(*sj)
        exp = closure(req, st)
        if ids(got) != ids(jobs[i] for i in exp):
            return 'predecessors_upstream(%s) on a scheduler that is not closed: %s, expected %s' % (st, got, sorted(exp))
    return None


# ----------------------------------------------------------------------------- C16
def c16_cases(tier, rng):
    k = 1500 if tier == 'quick' else 30000
    for i in range(k):
        yield {'kind': 'c16-tree', 'seed': rng.randrange(1 << 30), 'dirty': i % 4 != 0}


def c16_build(rng, dirty, aux=None):
    """random tree (depth <= 3); requirement edges between arbitrary pairs of objects of the tree
    plus outsiders when dirty, only within one scheduler otherwise"""
    scheds = []

    def mk(depth):
        n = rng.randint(0, 3)
        members = []
        for _ in range(n):
            if depth < 3 and rng.random() < 0.35:
                members.append(mk(depth + 1))
            else:
                members.append(J('a%d' % rng.randrange(10 ** 6)))
        s = Scheduler(*members)
        scheds.append(s)
        return s
    top = mk(0)
    if rng.random() < 0.3:
        pure = PureScheduler(*list(top.jobs))
        scheds[-1] = pure
        top = pure
    everything = [j for s in scheds for j in s.jobs]
    outsiders = [J('out%d' % i) for i in range(2)] + [Scheduler(J('deep'))]
    for s in scheds:
        mem = list(s.jobs)
        for a in mem:
            for b in mem:
                if a is not b and rng.random() < 0.3:
                    a.requires(b)
    if dirty:
        pool = everything + outsiders + [top]
        for _ in range(rng.randint(1, 4)):
            if not everything:
                break
            a = rng.choice(everything)
            b = rng.choice(pool)
            if a is not b:
                a.requires(b)
    if aux is not None and aux.random() < 0.35 and scheds:
        # jobs declared with `required=` (a set, a list, a tuple, a single job), the SAME collection object handed to
        # several constructors, possibly of jobs that end up in different schedulers: what sanitize() does to the
        # requirements of one job must not reach another's
        everything = [j for s in scheds for j in s.jobs]
        for _ in range(aux.randint(1, 3)):
            home = aux.choice(scheds)
            pool = (everything + outsiders) if dirty else list(home.jobs)
            if not pool:
                continue
            picked = aux.sample(pool, aux.randint(1, min(3, len(pool))))
            arg = aux.choice([set, list, tuple, lambda x: x[0]])(picked)
            for i in range(aux.randint(1, 3)):
                j = J('decl%d' % aux.randrange(10 ** 6), required=arg)
                (aux.choice(scheds) if dirty else home).add(j)
    return top, scheds


def c16_run(case):
    rng = random.Random(case['seed'])
    top, scheds = c16_build(rng, case['dirty'], aux=random.Random(case['seed'] + 1))
    before = {id(j): set(j.required) for s in scheds for j in s.jobs}
    need_removal = any(r not in s.jobs for s in scheds for j in s.jobs for r in j.required)
    # (with and without messages: `verbose` only changes what is printed)
    verbose = case['seed'] % 2 == 1
    res, _ = quiet(top.sanitize, verbose=True) if verbose else quiet(top.sanitize)
    for s in scheds:
        for j in s.jobs:
            for r in j.required:
                if r not in s.jobs:
                    return 'after sanitize%s a requirement is not a member of the same scheduler' % ('(verbose=True)' if verbose else '')
            for r in before[id(j)]:
                if r in s.jobs and r not in j.required:
                    return 'sanitize removed a requirement between two members of one scheduler'
    if res is not (not need_removal):
        return 'sanitize() returned %r but removals needed = %r' % (res, need_removal)
    res2, _ = quiet(top.sanitize)
    if res2 is not True:
        return 'second sanitize() returned %r' % (res2,)
    # the same tree edited again (new dangling requirements at random places, or a member removed that others
    # require) and sanitized again: nothing an earlier call left behind may matter
    everything = [j for s in scheds for j in s.jobs]
    outsiders = [J('late-out'), top]
    for _round in range(2):
        if not everything:
            break
        for _ in range(rng.randint(0, 3)):
            a, b = rng.choice(everything), rng.choice(everything + outsiders)
            if a is not b:
                a.requires(b)
        if rng.random() < 0.4:
            s = rng.choice(scheds)
            atoms = [j for j in s.jobs if isinstance(j, J)]      # (a removed nested scheduler would leave the tree)
            if atoms:
                s.remove(rng.choice(atoms))
        before = {id(j): set(j.required) for s in scheds for j in s.jobs}
        need_removal = any(r not in s.jobs for s in scheds for j in s.jobs for r in j.required)
        res, _ = quiet(top.sanitize)
        for s in scheds:
            for j in s.jobs:
                for r in j.required:
                    if r not in s.jobs:
                        return 'after editing and sanitizing again a requirement is not a member of the same scheduler'
                for r in before[id(j)]:
                    if r in s.jobs and r not in j.required:
                        return 'sanitizing again removed a requirement between two members of one scheduler'
        if res is not (not need_removal):
            return 'after editing: sanitize() returned %r but removals needed = %r' % (res, need_removal)
        everything = [j for s in scheds for j in s.jobs]
    return None


# ----------------------------------------------------------------------------- C18
def tclosure(n, edges):
    """must-run-before relation: (a, b) if a requires b through one or more links"""
    req = {i: set() for i in range(n)}
    for a, b in edges:
        req[a].add(b)
    return {(a, b) for a in range(n) for b in closure(req, [a])}


def c18_cases(tier, rng):
    maxn = 4
    for n in range(1, maxn + 1):
        for edges in all_digraphs(n):
            if not is_acyclic(n, edges):
                continue
            for v in range(n):
                yield {'kind': 'c18-op', 'n': n, 'edges': edges, 'ops': [['bypass', v]]}
            subsets = [list(c) for k in (0, 1, 2) for c in itertools.combinations(range(n), k)]
            if n == 4 and tier == 'quick':
                subsets = [s_ for s_ in subsets if rng.random() < 0.35]
            for st in subsets:
                for en in subsets:
                    if n >= 3 and rng.random() > (0.3 if tier == 'quick' else 1.0):
                        continue
                    ks, ke = rng.random() < 0.5, rng.random() < 0.5
                    yield {'kind': 'c18-op', 'n': n, 'edges': edges, 'ops': [['between', st, en, ks, ke]]}
            for keep in subsets[:4]:
                yield {'kind': 'c18-op', 'n': n, 'edges': edges, 'ops': [['keep', keep]]}
    # sequences of two bypasses around a hub: job 0 requires u upstreams and is required by d downstreams (some of
    # which also require an upstream directly); bypass the hub, then any other job (operations must compose)
    for u in range(1, 4):
        for d in range(1, 4):
            n = 1 + u + d
            ups, downs = list(range(1, 1 + u)), list(range(1 + u, n))
            base = [(0, x) for x in ups] + [(y, 0) for y in downs]
            extras = [(y, x) for y in downs for x in ups]
            for mask in range(1 << len(extras)) if len(extras) <= 4 else [rng.getrandbits(len(extras)) for _ in range(12)]:
                edges = base + [e for i, e in enumerate(extras) if mask >> i & 1]
                for second in range(1, n):
                    yield {'kind': 'c18-op', 'n': n, 'edges': [list(e) for e in edges], 'ops': [['bypass', 0], ['bypass', second]]}
    k = 300 if tier == 'quick' else 6000
    for _ in range(k):
        n = rng.randint(5, 8)
        edges = random_dag(rng, n, rng.choice([0.3, 0.5]))
        yield {'kind': 'c18-op', 'n': n, 'edges': edges, 'ops': [['bypass', v] for v in rng.sample(range(n), rng.randint(2, 3))]}
    for _ in range(k):
        n = rng.randint(4, 9 if tier == 'quick' else 12)
        edges = random_dag(rng, n, rng.choice([0.2, 0.35, 0.5]))
        ops = []
        for _o in range(rng.randint(1, 3)):
            r = rng.random()
            if r < 0.4:
                ops.append(['bypass', rng.randrange(n)])
            elif r < 0.8:
                ops.append(['between', rng.sample(range(n), rng.randint(0, 3)), rng.sample(range(n), rng.randint(0, 3)),
                            rng.random() < 0.5, rng.random() < 0.5])
            else:
                ops.append(['keep', rng.sample(range(n), rng.randint(0, n))])
        yield {'kind': 'c18-op', 'n': n, 'edges': edges, 'ops': ops}


def c18_run(case):
    n, edges = case['n'], {tuple(e) for e in case['edges']}
    s, jobs = build(n, sorted(edges))
    alive = set(range(n))
    for op in case['ops']:
        if op[0] == 'bypass':
            v = op[1]
            if v not in alive:
                try:
                    s.bypass_and_remove(jobs[v])
                except ValueError:
                    continue
                return 'bypass_and_remove of a non-member did not raise ValueError'
            before = {(a, b) for (a, b) in tclosure(n, edges) if a != v and b != v}
            s.bypass_and_remove(jobs[v])
            ups = {b for (a, b) in edges if a == v}
            downs = {a for (a, b) in edges if b == v}
            new = {(a, b) for (a, b) in edges if a != v and b != v} | {(d, u) for d in downs for u in ups if d != u}
            alive.discard(v)
            exp_edges = new
            exp_alive = set(alive)
            if tclosure(n, new) != before:
                return 'reference model broken'      # sanity of the oracle itself
        elif op[0] == 'keep':
            keep = set(op[1])
            arg = [jobs[i] for i in keep]
            # the argument is "a collection of jobs": a list, a tuple, a set, or any iterable (here by turns)
            form = (len(keep) + n) % 4
            s.keep_only(arg if form == 0 else tuple(arg) if form == 1 else set(arg) if form == 2 else iter(arg))
            exp_alive = alive & keep
            exp_edges = {(a, b) for (a, b) in edges if a in exp_alive and b in exp_alive}
        else:
            _, st, en, ks, ke = op
            st = [i for i in st if i in alive]
            en = [i for i in en if i in alive]
            suc = {i: set() for i in range(n)}
            req = {i: set() for i in range(n)}
            for a, b in edges:
                if a in alive and b in alive:
                    req[a].add(b)
                    suc[b].add(a)
            down = closure(suc, st) if st else set(alive)
            up = closure(req, en) if en else set(alive)
            exp_alive = (down & up) | (set(st) if ks else set()) | (set(en) if ke else set())
            s_arg, e_arg = [jobs[i] for i in st], [jobs[i] for i in en]
            if (len(st) + len(en)) % 3 == 1:
                s_arg, e_arg = tuple(s_arg), set(e_arg)
            s.keep_only_between(starts=s_arg, ends=e_arg, keep_starts=ks, keep_ends=ke)
            exp_edges = {(a, b) for (a, b) in edges if a in exp_alive and b in exp_alive}
        got_alive = {i for i in range(n) if jobs[i] in s.jobs}
        if got_alive != exp_alive or len(s.jobs) != len(exp_alive):
            return 'after %s: kept jobs %s, documented %s' % (op, sorted(got_alive), sorted(exp_alive))
        got_edges = {(a, jobs.index(r)) for a in got_alive for r in jobs[a].required if r in jobs}
        if got_edges != exp_edges or any(r not in jobs for a in got_alive for r in jobs[a].required):
            return 'after %s: requirements %s, documented %s' % (op, sorted(got_edges), sorted(exp_edges))
        if op[0] == 'bypass' and tclosure(n, got_edges) != before:
            return 'after %s: must-run-before relation among the remaining jobs changed' % (op,)
        alive, edges = exp_alive, exp_edges
        if not s.check_cycles():
            return 'after %s: no longer acyclic' % (op,)
    return None


# ----------------------------------------------------------------------------- C19
# short programs interpreted both by the library and by a reference model of the documented
# semantics (the model is written from the property statement, not from the code)
def c19_gen_arg(rng, njobs, nseqs, depth=0, hashable=False):
    """a nested argument: ('j', i) | ('s', i) | None | ('list'|'tuple'|'set', [args])"""
    r = rng.random()
    if depth >= 3 or r < 0.45:
        return ('j', rng.randrange(njobs))
    if r < 0.55:
        return None
    if r < 0.7 and nseqs:
        return ('s', rng.randrange(nseqs))
    kinds = ['tuple'] if hashable else ['list', 'tuple', 'set']
    kind = rng.choice(kinds)
    inner_hashable = hashable or kind == 'set'
    return (kind, [c19_gen_arg(rng, njobs, nseqs, depth + 1, inner_hashable)
                   for _ in range(rng.randint(0, 3))])


def c19_gen_program(rng, nops):
    njobs, nscheds = 6, 2
    prog, nseqs = [], 0
    for _ in range(nops):
        r = rng.random()
        flat_args = lambda k: [rng.choice([('j', rng.randrange(njobs)), None] +
                                          ([('s', rng.randrange(nseqs))] if nseqs else []))
                               for _ in range(rng.randint(0, k))]
        if r < 0.25:
            prog.append(('seq', flat_args(4), c19_gen_arg(rng, njobs, nseqs) if rng.random() < 0.5 else None,
                         rng.randrange(nscheds) if rng.random() < 0.5 else None))
            nseqs += 1
        elif r < 0.45 and nseqs:
            prog.append(('append', rng.randrange(nseqs), flat_args(3)))
        elif r < 0.7:
            prog.append(('requires', rng.randrange(njobs),
                         [c19_gen_arg(rng, njobs, nseqs) for _ in range(rng.randint(0, 3))]))
        elif r < 0.8:
            prog.append(('unrequire', rng.randrange(njobs), rng.random() < 0.25, rng.randrange(1 << 30)))
        elif r < 0.85 and nseqs:
            prog.append(('seq_requires', rng.randrange(nseqs),
                         [c19_gen_arg(rng, njobs, nseqs) for _ in range(rng.randint(0, 2))]))
        elif r < 0.92:
            prog.append(('add', rng.randrange(nscheds), rng.choice(flat_args(1) or [('j', 0)]) or ('j', 1)))
        elif r < 0.97:
            prog.append(('update', rng.randrange(nscheds), flat_args(3)))
        else:
            prog.append(('remove', rng.randrange(nscheds), rng.randrange(njobs)))
    return prog


def c19_cases(tier, rng):
    # hand-written corner cases first (each is a statement of the property)
    yield {'kind': 'c19-prog', 'prog': [('seq', [('j', 0)], None, None), ('append', 0, [('j', 1), ('j', 2)])]}
    yield {'kind': 'c19-prog', 'prog': [('seq', [('j', 0)], None, None), ('append', 0, [None])]}
    yield {'kind': 'c19-prog', 'prog': [('seq', [('j', 0), ('j', 1)], None, None),
                                        ('requires', 2, [('s', 0)]), ('unrequire_named', 2, [('s', 0)])]}
    # constructors given `required=`: the collection handed in stays the caller's (placed before the random programs and
    # drawn from a generator of their own, so that the programs a seed draws stay what they were)
    aux = random.Random(rng.random())
    for _ in range(40 if tier == 'quick' else 400):
        yield {'kind': 'c19-ctor', 'seed': aux.randrange(1 << 30)}
    k = 3000 if tier == 'quick' else 60000
    for _ in range(k):
        yield {'kind': 'c19-prog', 'prog': c19_gen_program(rng, rng.randint(1, 7))}


def c19_ctor(case):
    """two or three jobs built with the same `required=` object; requirements added to or removed from one of them
    afterwards concern that one only, and the caller's collection is left as it was"""
    r = random.Random(case['seed'])
    base = [J('b%d' % i) for i in range(4)] + [Scheduler(label='empty-nested'), Scheduler(J('in'), label='nested')]
    picked = r.sample(base, r.randint(1, 4))
    arg = r.choice([set, list, tuple, lambda x: x[0]])(picked)
    want = set(arg) if isinstance(arg, (set, list, tuple)) else {arg}
    picked = sorted(want, key=base.index)
    snapshot = list(arg) if isinstance(arg, (set, list, tuple)) else None
    mk = r.choice([lambda n: J(n, required=arg), lambda n: Scheduler(J(n + '-in'), required=arg, label=n)])
    js = [mk('c%d' % i) for i in range(r.randint(2, 3))]
    for j in js:
        if set(j.required) != want:
            return 'built with required=%r: requires %r' % (arg, sorted(map(repr, j.required)))
    extra = [x for x in base if x not in want]
    if extra:
        js[0].requires(r.choice(extra))
    js[-1].requires(picked[0], remove=True)
    if snapshot is not None and (len(arg) != len(snapshot) or any(a is not b for a, b in zip(sorted(arg, key=id), sorted(snapshot, key=id)))):
        return "the collection given as required= was modified by a later requires() on the job"
    exp = [set(want) for _ in js]
    if extra:
        exp[0] |= set(js[0].required) - want
    exp[-1] = exp[-1] - {picked[0]}
    for j, e in zip(js, exp):
        if set(j.required) != e:
            return 'jobs built with the same required= object share their requirements: %r has %d, expected %d' % (
                j, len(j.required), len(e))
    return None


class C19Model:
    def __init__(self, njobs=6, nscheds=2):
        self.req = [set() for _ in range(njobs)]
        self.seqs = []          # list of lists of job indices
        self.seq_sched = []
        self.members = [set() for _ in range(nscheds)]

    def flat(self, args):
        out = []
        for a in args:
            if a is None:
                continue
            if a[0] == 'j':
                out.append(a[1])
            else:
                out.extend(self.seqs[a[1]])
        return out

    def leaves(self, a):
        if a is None:
            return []
        if a[0] == 'j':
            return [a[1]]
        if a[0] == 's':
            return [self.seqs[a[1]][-1]] if self.seqs[a[1]] else []
        out = []
        for x in a[1]:
            out.extend(self.leaves(x))
        return out

    def chain(self, jobs, start):
        for k in range(max(start, 1), len(jobs)):
            if jobs[k] != jobs[k - 1]:
                self.req[jobs[k]].add(jobs[k - 1])


def c19_realize(a, jobs, seqs):
    if a is None:
        return None
    if a[0] == 'j':
        return jobs[a[1]]
    if a[0] == 's':
        return seqs[a[1]]
    items = [c19_realize(x, jobs, seqs) for x in a[1]]
    return {'list': list, 'tuple': tuple, 'set': set}[a[0]](items)


def c19_run(case):
    if case['kind'] == 'c19-ctor':
        return c19_ctor(case)
    prog = case['prog']
    # four atomic jobs, an empty nested scheduler (falsy: PureScheduler defines __len__) and a non-empty one: the
    # statement speaks of jobs, and a nested scheduler is a job
    jobs = [J('j%d' % i) for i in range(4)] + [Scheduler(label='j4-empty-nested'), Scheduler(J('inner'), label='j5-nested')]
    scheds = [PureScheduler(), Scheduler()]
    seqs = []
    m = C19Model()

    def compare(step):
        for i, j in enumerate(jobs):
            got = {jobs.index(r) for r in j.required if r in jobs}
            if len(got) != len(j.required) or got != m.req[i]:
                return 'after %r: j%d requires %s, documented semantics give %s' % (
                    step, i, sorted(got), sorted(m.req[i]))
        for k, sq in enumerate(seqs):
            if [jobs.index(x) for x in sq.jobs] != m.seqs[k]:
                return 'after %r: sequence %d holds %s, expected %s' % (
                    step, k, [jobs.index(x) for x in sq.jobs], m.seqs[k])
        for k, sc in enumerate(scheds):
            got = {jobs.index(x) for x in sc.jobs}
            if got != m.members[k] or len(sc.jobs) != len(got):
                return 'after %r: scheduler %d holds %s, expected %s' % (step, k, sorted(got), sorted(m.members[k]))
        return None

    for op in prog:
        op = tuple(op)
        kind = op[0]
        try:
            if kind == 'seq':
                _, args, required, sched = op
                sq = Sequence(*[c19_realize(a, jobs, seqs) for a in args],
                              required=c19_realize(required, jobs, seqs),
                              scheduler=None if sched is None else scheds[sched])
                seqs.append(sq)
                fl = m.flat(args)
                m.chain(fl, 1)
                if fl:
                    m.req[fl[0]] |= set(m.leaves(required)) - {fl[0]}
                m.seqs.append(fl)
                m.seq_sched.append(sched)
                if sched is not None:
                    m.members[sched] |= set(fl)
            elif kind == 'append':
                _, k, args = op
                seqs[k].append(*[c19_realize(a, jobs, seqs) for a in args])
                new = m.flat(args)
                full = m.seqs[k] + new
                m.chain(full, len(m.seqs[k]))
                m.seqs[k] = full
                if m.seq_sched[k] is not None:
                    m.members[m.seq_sched[k]] |= set(new)
            elif kind == 'requires':
                _, i, args = op
                r = jobs[i].requires(*[c19_realize(a, jobs, seqs) for a in args])
                if r is not jobs[i]:
                    return 'requires() does not return the job'
                for a in args:
                    m.req[i] |= set(m.leaves(a)) - {i}
            elif kind == 'unrequire_named':
                _, i, args = op
                named = [x for a in args for x in m.leaves(a)]
                jobs[i].requires(*[c19_realize(a, jobs, seqs) for a in args], remove=True)
                m.req[i] -= set(named)
            elif kind == 'unrequire':
                _, i, absent, sd = op
                r2 = random.Random(sd)
                present = sorted(m.req[i])
                if absent:
                    cand = [x for x in range(6) if x not in m.req[i]]
                    target = [('j', r2.choice(cand))]
                    try:
                        jobs[i].requires(*[c19_realize(a, jobs, seqs) for a in target], remove=True)
                    except KeyError:
                        continue
                    return 'requires(absent, remove=True) did not raise KeyError'
                if not present:
                    continue
                chosen = r2.sample(present, r2.randint(1, len(present)))
                # name them through a nested structure
                arg = ('list', [('j', x) for x in chosen[:1]] + [('tuple', [('j', x) for x in chosen[1:]]), None])
                jobs[i].requires(c19_realize(arg, jobs, seqs), remove=True)
                m.req[i] -= set(chosen)
            elif kind == 'seq_requires':
                _, k, args = op
                seqs[k].requires(*[c19_realize(a, jobs, seqs) for a in args])
                if m.seqs[k]:
                    first = m.seqs[k][0]
                    for a in args:
                        m.req[first] |= set(m.leaves(a)) - {first}
            elif kind == 'add':
                _, k, a = op
                scheds[k].add(c19_realize(a, jobs, seqs))
                m.members[k] |= set(m.flat([a]))
            elif kind == 'update':
                _, k, args = op
                r = scheds[k].update([c19_realize(a, jobs, seqs) for a in args])
                if r is not scheds[k]:
                    return 'update() does not return the scheduler'
                m.members[k] |= set(m.flat(args))
            elif kind == 'remove':
                _, k, i = op
                if i in m.members[k]:
                    scheds[k].remove(jobs[i])
                    m.members[k].discard(i)
                else:
                    try:
                        scheds[k].remove(jobs[i])
                    except KeyError:
                        continue
                    return 'remove() of a non-member did not raise KeyError'
        except Exception as exc:
            return 'after %r: unexpected %r' % (op, exc)
        err = compare(op)
        if err:
            return err
    return None


# ----------------------------------------------------------------------------- C01 - C14 (run-time)
def _wrap(spec, depth, S):
    for k in range(depth):
        spec = S('w%d' % k, [spec])
    return spec


def rt_cases(prop):
    def gen(tier, rng):
        from replay import runtime as RT
        k = {'quick': 250, 'thorough': 6000}[tier]
        # hand-written scenarios first: the situations the statements single out
        J = lambda n, **kw: dict(dict(name=n, type='job', duration=1, outcome='ret', critical=False, forever=False,
                                      cancel_delay=0, shutdown_duration=0), **kw)
        S = lambda n, mem, edges=(), **kw: dict(dict(name=n, type='sched', members=mem, edges=list(edges), window=None,
                                                     timeout=None, shutdown_timeout=1, critical=False, forever=False), **kw)
        fixed = [
            S('top', [J('a', outcome='raise'), J('b'), J('c')], window=1),
            S('top', [J('a', outcome='raise'), J('b'), J('c'), J('d')], [(3, 0)], window=2),
            S('top', [J('a')], timeout=0),
            S('top', [J('a')], timeout=0, critical=True),
            S('top', [S('in', [J('x', duration=5)])], timeout=1),
            S('top', [S('in', [J('x', duration=5, cancel_delay=0.25)]), J('c', critical=True, outcome='raise')]),
            S('top', [S('in', [S('in2', [J('x', duration=5)])], critical=True), J('y', duration=2)], timeout=1.5),
            S('top', [J('a'), J('b', duration=3)], [(1, 0)], timeout=2),
            S('top', [J('f', duration=None, forever=True), J('a'), J('b')], [(2, 1)]),
            S('top', [J('a', duration=0), J('b', duration=0), J('c', duration=0)], [(2, 0), (2, 1)], window=1),
            S('top', [S('n1', [J('x', critical=True, outcome='raise')], critical=True), J('y', duration=3)], critical=True),
            S('top', [S('n1', [S('n2', [J('x', critical=True, outcome='raise')], critical=True)], critical=True),
                      J('y', duration=3)], critical=False),
            S('top', [J('a', shutdown_duration=3), J('b')], shutdown_timeout=0.125),
            # a critical and a non-critical job raising in the same batch, with successors and a long job
            S('top', [J('c', critical=True, outcome='raise'), J('n', outcome='raise'), J('l', duration=5),
                      J('s1'), J('s2')], [(3, 0), (4, 1)]),
            S('top', [J('c', critical=True, outcome='raise'), J('n', outcome='raise'), J('l', duration=5),
                      J('q1', duration=5), J('q2', duration=5), J('s1')], [(5, 1)], window=3),
            S('top', [S('in', [J('c', critical=True, outcome='raise'), J('n', outcome='raise', yields=1),
                               J('l', duration=5), J('s1')], [(3, 1)], critical=True), J('o', duration=4)]),
            # a nested scheduler cancelled by its parent while it clears the exceptions of a batch (gather)
            S('top', [S('in', [J('a', outcome='raise', yields=5, cancel_delay=0.25), J('b', duration=5, cancel_delay=0.25)]),
                      J('k', critical=True, outcome='raise', yields=4)]),
            S('top', [S('in', [J('a', outcome='raise', yields=5), J('b', duration=5, cancel_delay=0.25)]),
                      J('k', critical=True, outcome='raise', yields=5)]),
            # redundant edges: a requires nothing; m requires a; l requires a and m
            S('top', [J('a'), J('m', duration=2), J('l')], [(1, 0), (2, 0), (2, 1)]),
            S('top', [J('a'), J('b'), J('m', duration=2), J('l')], [(2, 0), (3, 1), (3, 2)]),
            S('top', [J('a'), J('m', duration=2), S('l', [J('x')])], [(1, 0), (2, 0), (2, 1)]),
            # a requirement finishing a few loop iterations after another one that raised, while the window is full
            S('top', [J('r1', outcome='raise'), J('r2', yields=3), J('x1', duration=5), J('x2', duration=5),
                      J('x3', duration=5), J('c')], [(2, 0), (3, 0), (4, 0), (5, 0), (5, 1)], window=2),
            S('top', [J('r1', outcome='raise'), J('r2', yields=4), J('x1', duration=5), J('x2', duration=5),
                      J('c')], [(2, 0), (3, 0), (4, 0), (4, 1)], window=2),
            S('top', [S('in', [J('x', shutdown_duration=3)], shutdown_timeout=0.125), J('b', duration=2)]),
            # two candidates examined in one batch, one still blocked, one ready, next to a forever job:
            # every order in which the set of candidates may be iterated (salts)
            *[S('top', [J('a'), J('b', duration=3), J('blocked'), J('ready'), J('tick', duration=None, forever=True)],
                [(2, 0), (2, 1), (3, 0)], salt=str(k)) for k in range(6)],
            *[S('top', [J('a'), J('b', duration=3), J('k1'), J('k2'), J('k3')],
                [(2, 0), (2, 1), (3, 0), (4, 0), (4, 1)], salt=str(k), timeout=20) for k in range(4)],
            # a full window with several jobs queued behind it at the instant of a critical failure / of the timeout /
            # of the last regular completion (forever jobs queued)
            *[S('top', [J('crit', critical=True, outcome='raise', duration=2), J('long', duration=9), J('e'),
                        J('k1', duration=5), J('k2', duration=5), J('k3', duration=5), J('k4', duration=5)],
                [(3, 2), (4, 2), (5, 2), (6, 2)], window=3, salt=str(k)) for k in range(3)],
            *[S('top', [J('long', duration=9), J('e'), J('k1', duration=5), J('k2', duration=5), J('k3', duration=5),
                        J('k4', duration=5)], [(2, 1), (3, 1), (4, 1), (5, 1)], window=2, timeout=3, salt=str(k)) for k in range(3)],
            *[S('top', [J('a'), J('b', duration=3), J('f1', duration=None, forever=True), J('f2', duration=None, forever=True),
                        J('f3', duration=None, forever=True), J('f4', duration=None, forever=True)],
                [(2, 0), (3, 0), (4, 0), (5, 0)], window=2, salt=str(k)) for k in range(3)],
            # a job handed to a full window in the very loop iterations in which a slot changes hands:
            # two holders finishing k iterations apart, a queued job, and a successor of the first holder
            *[S('top', [J('a', duration=2, yields=k), J('b', duration=2), J('c', duration=9), J('q1', duration=4),
                        J('q2', duration=4), J('t', duration=4)], [(5, 1)], window=3, salt=str(s_)) for k in range(5) for s_ in range(2)],
            *[S('top', [J('a', duration=2, yields=k), J('b', duration=2), J('q1', duration=4), J('t', duration=4)],
                [(3, 1)], window=2, salt=str(s_)) for k in range(5) for s_ in range(2)],
            # slow reaction to cancellation at a timeout / critical failure
            S('top', [J('a', duration=9, cancel_delay=0.25), J('b', duration=9, cancel_delay=0.5)], timeout=2),
            S('top', [S('in', [J('a', duration=9, cancel_delay=0.25)], timeout=2), J('z', duration=1)], [(1, 0)]),
            # an empty nested scheduler in the middle of a chain is still one job of its parent
            S('top', [J('x', duration=2), S('empty', []), J('y')], [(1, 0), (2, 1)]),
            S('top', [J('x', duration=2), S('mid', [S('empty', [])], critical=True), J('y')], [(1, 0), (2, 1)]),
            # a (display) Watch shared by a tree whose nested scheduler has a timeout and starts late
            S('top', [J('first', duration=3), S('in', [J('x', duration=1)], timeout=2)], [(1, 0)], watch=True),
            S('top', [J('first', duration=3), S('in', [J('x', duration=9)], timeout=2), J('y')], [(1, 0), (2, 1)], watch=True),
            # the graph is edited between two runs of the same scheduler (a requirement is added: c now waits for b)
            S('top', [J('a'), J('b', duration=3), J('c')], [(2, 0)], rerun=True, rerun_edge=['top', 2, 1]),
            S('top', [J('a'), J('b', duration=3), J('c'), J('d')], [(1, 0), (3, 2)], rerun=True, rerun_edge=['top', 2, 1], window=2),
            # verbose schedulers whose shutdown handlers outlive shutdown_timeout, flat and nested
            S('top', [J('a', shutdown_duration=3), J('b')], shutdown_timeout=0.125, verbose=True),
            S('top', [S('in', [J('x', shutdown_duration=3)], shutdown_timeout=0.125), J('b', duration=2)], verbose=True),
            # the window is edited between two runs of the same scheduler
            S('top', [J('a'), J('b'), J('c'), J('d')], [], window=1, rerun=True, rerun_window=3),
            S('top', [J('a'), J('b'), J('c'), J('d')], [], window=3, rerun=True, rerun_window=1),
            # between two runs: a never-ending forever job is added and the window is raised to make room for it
            S('top', [J('first'), J('second')], [(1, 0)], window=1, rerun=True, rerun_window=2,
              rerun_add=[J('never', duration=None, forever=True)]),
            S('top', [J('a'), J('b'), J('c')], [], window=2, rerun=True, rerun_window=4,
              rerun_add=[J('never1', duration=None, forever=True), J('never2', duration=None, forever=True)]),
            # a forever nested scheduler is still tidying its own forever job (slow to die) when the run ends
            S('top', [S('svc', [J('r', duration=1), J('log', duration=None, forever=True, cancel_delay=0.5)], forever=True),
                      J('main', duration=1, yields=3)]),
            S('top', [S('svc', [J('r', duration=1, yields=2), J('log', duration=None, forever=True, cancel_delay=0.5)], forever=True),
                      J('main', duration=1, yields=4)]),
            # an enclosing scheduler ends (critical failure / timeout) in the very loop iterations in which a windowed
            # nested scheduler processes a completion and starts a successor: every offset 0..6 between the two
            *[S('top', [S('in', [J('a', yields=i), J('b', duration=5), J('s', duration=5)], [(1, 0)], window=2),
                        J('crit', critical=True, outcome='raise', yields=j)])
              for i in range(0, 7) for j in range(0, 7) if abs(i - j) <= 4],
            *[S('top', [S('in', [J('a', yields=i), J('b', duration=5), J('s', duration=5)], [(1, 0)], window=2),
                        J('long', duration=9)], timeout=1) for i in range(0, 5)],
            # the same with the cancellation arriving through 1 or 2 intermediate schedulers (each level delays it by
            # a few loop iterations), so that both signs of the offset are covered
            *[S('top', [S('w1', [S('in', [J('a', yields=i), J('b', duration=5), J('s', duration=5)], [(1, 0)], window=2)]),
                        J('long', duration=9)], timeout=1) for i in range(0, 7)],
            *[S('top', [S('w1', [S('w2', [S('in', [J('a', yields=i), J('b', duration=5), J('s', duration=5)], [(1, 0)],
                                             window=2)])]), J('long', duration=9)], timeout=1) for i in range(0, 9)],
            *[S('top', [S('w1', [S('in', [J('a', yields=i), J('b', duration=5), J('s', duration=5)], [(1, 0)], window=2)]),
                        J('crit', critical=True, outcome='raise', yields=j)]) for i in range(0, 7) for j in (0, 2)],
            # ... and a timeout expiring at the very instant of the nested completion, the cancellation coming down
            # through d levels (d = 0..4), with 0..3 extra instantaneous jobs (they shift the order of the timers)
            *[S('top', [_wrap(S('in', [J('a', yields=i), J('b', duration=5), J('s', duration=5)], [(1, 0)], window=2), d, S),
                        J('long', duration=9)] + [J('p%d' % q, duration=0) for q in range(pre)], timeout=1)
              for d in range(0, 5) for i in range(0, 3) for pre in range(0, 4)],
            # a run that fails, then the scheduler is emptied and run again: an empty run is a success with no cause
            S('top', [J('a', duration=5)], timeout=1, rerun=True, session=[[['clear', 'top']]]),
            S('top', [S('in', [J('c', critical=True, outcome='raise')]), J('z')], rerun=True, session=[[['clear', 'in']]]),
            # a query, then a job bypassed, then the first run (the bypassed job has never run)
            S('top', [J('a'), J('x', duration=0), J('c', duration=4)], [(1, 0), (2, 1)],
              presession=[['query', 'top'], ['bypass', 'top', 'x']]),
            S('top', [J('a'), J('x', duration=0), J('c', duration=4), J('d', duration=2)], [(1, 0), (2, 1), (3, 1)],
              presession=[['query', 'top'], ['bypass', 'top', 'x'], ['query', 'top']], window=2),
            S('top', [S('in', [J('a'), J('x', duration=0), J('c', duration=4)], [(1, 0), (2, 1)]), J('z')],
              presession=[['query', 'in'], ['bypass', 'in', 'x']]),
            # a query, then a job bypassed (no sanitize needed), then a run
            S('top', [J('a'), J('x', duration=0), J('c', duration=4)], [(1, 0), (2, 1)], rerun=True,
              session=[[['query', 'top'], ['bypass', 'top', 'x']]]),
            S('top', [J('a'), J('x', duration=0), J('c', duration=4), J('d', duration=2)], [(1, 0), (2, 1), (3, 1)], rerun=True,
              session=[[['query', 'top'], ['bypass', 'top', 'x']]], window=2),
            # jobs that take longer to honour their cancellation than shutdown_timeout, on the three exit paths
            S('top', [J('c', critical=True, outcome='raise'), J('slow', duration=9, cancel_delay=0.5)], shutdown_timeout=0.125),
            S('top', [J('slow', duration=9, cancel_delay=0.5)], timeout=1, shutdown_timeout=0.125),
            S('top', [J('a'), J('f', duration=None, forever=True, cancel_delay=0.5)], shutdown_timeout=0.125),
            S('top', [S('in', [J('slow', duration=9, cancel_delay=0.5)], shutdown_timeout=0.125),
                      J('c', critical=True, outcome='raise')], shutdown_timeout=0.125),
            # read-only queries made by another task while the run is in progress
            S('top', [J('a'), J('b', duration=3), J('c')], [(2, 0), (2, 1)], probe_at=[2]),
            S('top', [S('in', [J('a'), J('b', duration=3), J('c')], [(2, 0), (2, 1)]), J('z', duration=4)], probe_at=[1.5, 2.5]),
            S('top', [J('a'), J('b', duration=3), J('c'), J('d', duration=2)], [(2, 0), (2, 1), (3, 0)], probe_at=[0.5, 2], window=2),
            # a job behind a nested scheduler AND another job: the nested scheduler's finite jobs are done (or it has
            # failed) while its own run is not over yet (slow forever job / slow shutdown handler / second run)
            S('top', [S('s', [J('i1'), J('f', duration=None, forever=True, cancel_delay=0.5)]), J('r', duration=1, yields=3),
                      J('x')], [(2, 0), (2, 1)]),
            S('top', [S('s', [J('i1', shutdown_duration=0.75)]), J('r', duration=1, yields=3), J('x')], [(2, 0), (2, 1)]),
            S('top', [S('s', [J('i1'), J('i2', duration=3)]), J('r', duration=1), J('x')], [(2, 0), (2, 1)], rerun=True),
            S('top', [S('s', [J('i1', duration=9)], timeout=1), J('r', duration=2), J('x')], [(2, 0), (2, 1)]),
            # a job behind a returning and a raising job that complete in the same batch, with a successor of its own
            S('top', [J('a', duration=1), J('b', duration=1, outcome='raise'), J('c'), J('d')], [(2, 0), (2, 1), (3, 2)]),
            S('top', [J('a', duration=0), J('b', duration=0, outcome='raise'), J('c', duration=2), J('d'), J('e', duration=3)],
              [(2, 0), (2, 1), (3, 2)]),
            *[S('top', [J('a', duration=1, yields=i), J('b', duration=1, outcome='raise', yields=j), J('c'), J('d')],
                [(2, 0), (2, 1), (3, 2)]) for i in range(3) for j in range(3)],
            # a forever job behind a requirement, in a scheduler that is run twice (flat and nested, with a window too)
            S('top', [J('first'), J('last', duration=2), J('ticker', duration=None, forever=True)], [(1, 0), (2, 0)], rerun=True),
            S('top', [J('first'), J('last', duration=2), J('ticker', duration=None, forever=True),
                      J('t2', duration=None, forever=True)], [(1, 0), (2, 0), (3, 2)], rerun=True, window=3),
            S('top', [J('first'), J('last', duration=2), S('svc', [J('tk', duration=None, forever=True)], forever=True)],
              [(1, 0), (2, 0)], rerun=True),
            # a tolerated failure whose exception does not derive from Exception, under a window that the later jobs need
            *[S('top', [J('a', outcome='raise', base_exc=True), J('w1', duration=2), J('w2', duration=2), J('w3', duration=2),
                        J('w4', duration=2)], [(1, 0), (2, 0), (3, 0), (4, 0)], window=w) for w in (1, 2, 3)],
            S('top', [S('n', [J('a', outcome='raise', base_exc=True), J('w1', duration=2), J('w2', duration=2)],
                        [(1, 0), (2, 0)], window=1), J('z')], [(1, 0)]),
            # a forever job that ends by itself in the same batch as a regular job while another regular job runs on
            *[S('top', [J('f', duration=1, forever=True, outcome=o, yields=i), J('a', duration=1, yields=j), J('b', duration=3),
                        J('c')], [(3, 2)]) for o in ('ret', 'raise') for i in range(2) for j in range(2)],
            S('top', [S('n', [J('f', duration=1, forever=True), J('a', duration=1), J('b', duration=3)]), J('c')], [(1, 0)]),
            # a tolerated failure first, a critical one later, along chains of critical / non-critical schedulers
            S('top', [S('n1', [S('n2', [J('t', outcome='raise'), J('x', duration=2, critical=True, outcome='raise')],
                                 critical=True)], critical=True), J('y', duration=5)], critical=True),
            S('top', [S('n1', [S('n2', [J('t', outcome='raise'), J('x', duration=2, critical=True, outcome='raise')],
                                 critical=True), J('t1', outcome='raise', duration=0)], critical=True), J('y', duration=5)]),
            S('top', [S('n1', [S('n2', [J('t', outcome='raise'), J('x', duration=2, critical=True, outcome='raise')],
                                 critical=True), J('z', duration=4)], critical=False), J('y', duration=5)], critical=True),
            S('top', [S('n1', [J('t', outcome='raise'), J('u', duration=3)], timeout=2, critical=True), J('y', duration=5)]),
        ]
        for sp in fixed:
            yield {'kind': 'rt', 'prop': prop, 'spec': sp}
        if prop in ('C08', 'C05', 'C11') and hasattr(__import__('asyncio'), 'timeout'):
            # a job with a timeout of its own, cleaning up after it (a cancellation in flight in its task) at the instant
            # the scheduler's timeout / a critical failure / the enclosing scheduler's timeout falls
            for cleanup in (2, 3):
                yield {'kind': 'rt', 'prop': prop,
                       'spec': S('top', [J('j', inner=[1, cleanup, 5]), J('k', duration=1)], timeout=2)}
                yield {'kind': 'rt', 'prop': prop,
                       'spec': S('top', [S('n', [J('j', inner=[1, cleanup, 5]), J('k', duration=1)]), J('y', duration=1)], timeout=2)}
                yield {'kind': 'rt', 'prop': prop,
                       'spec': S('top', [J('j', inner=[1, cleanup, 5]), J('c', duration=2, critical=True, outcome='raise')])}
        if prop == 'C11':
            # a job without successors whose own task ends cancelled (nobody cancelled it through the scheduler) while
            # siblings run on: the run goes on and ends cleanly, nothing is left behind
            for wrap in (False, True):
                for w in (None, 2):
                    inner = S('n', [J('x', outcome='cancel-self'), J('w1', duration=3), J('w2', duration=3)], window=w)
                    yield {'kind': 'rt', 'prop': prop,
                           'spec': S('top', [inner, J('y', duration=4)]) if wrap else dict(inner, name='top')}
        if prop == 'C14':
            for val in ('plain', 'none', 'pending-future', 'done-future', 'failed-future', 'task', 'failing-task', 'coroutine'):
                for crit in (False, True):
                    for nested in (False, True):
                        yield {'kind': 'c14-job', 'prop': prop, 'value': val, 'critical': crit, 'nested': nested}
        if prop == 'C06':
            # a tolerated job that returns / raises something that does not derive from Exception, under a window
            for w in (1, 2, 3):
                for wrap in (False, True):
                    def mkb(o):
                        inner = S('n', [J('a', outcome=o, base_exc=True), J('w1', duration=2), J('w2', duration=2),
                                        J('w3', duration=2)], [(1, 0), (2, 0), (3, 0)], window=w)
                        return S('top', [inner, J('y', duration=4)]) if wrap else dict(inner, name='top')
                    yield {'kind': 'rt-c06', 'prop': prop, 'spec': mkb('ret'), 'spec2': mkb('raise'), 'flipped': ['a']}
            # a critical scheduler holding a tolerated job (returning / raising) and a critical job that raises later
            # or in the same batch, for several iteration orders of its set of jobs, nested and at top level
            for k_ in range(6):
                for dx in (1, 2):
                    for wrap in (False, True):
                        def mk(o):
                            inner = S('n', [J('t', duration=1, outcome=o), J('x', duration=dx, critical=True, outcome='raise'),
                                            J('u', duration=3)], critical=True, salt=str(k_))
                            return S('top', [inner, J('y', duration=4)], salt=str(k_)) if wrap else dict(inner, name='top')
                        yield {'kind': 'rt-c06', 'prop': prop, 'spec': mk('ret'), 'spec2': mk('raise'), 'flipped': ['t']}
        for i in range(k):
            seed = rng.randrange(1 << 30)
            r2 = random.Random(seed)
            if prop == 'C10':
                if i % 2:
                    yield {'kind': 'rt-c10', 'prop': prop, 'spec': RT.gen_c10(r2)}
                else:
                    yield {'kind': 'rt-c10s', 'prop': prop, 'spec': RT.gen_chain(r2)}
                continue
            sp = RT.gen_tree(r2)
            if i % 2:
                sp['salt'] = str(r2.randrange(1000))       # another set iteration order
            if i % 5 == 2:
                sp['watch'] = True                         # a Watch shared by the tree (display aid: changes nothing)
            if i % 6 == 1:
                sp['verbose'] = True                       # verbose schedulers (messages only)
            if i % 6 == 4:
                sp['probe_at'] = [r2.choice([0.5, 1, 1.5, 2, 2.5, 3]) for _ in range(r2.randint(1, 2))]   # queries mid-run
            flat = all(m['type'] == 'job' for m in sp['members'])
            if i % 7 == 2 and prop not in ('C06', 'C10'):
                # queries and edits on the freshly built tree, before its first run
                sp['presession'] = RT.gen_session(r2, sp, runs=1)[0]
            if i % 7 == 5 and prop not in ('C06', 'C10', 'C13') and (prop != 'C14' or flat):
                # a session: the tree is edited (requirements, windows, jobs added or removed, read-only queries)
                # between two or three runs of the same top scheduler; the last run is judged
                sp['rerun'] = True
                sp['session'] = RT.gen_session(r2, sp)
                yield {'kind': 'rt', 'prop': prop, 'spec': sp}
                continue
            if i % 4 == 3 and prop not in ('C06', 'C10', 'C13') and (prop != 'C14' or flat) and 'presession' not in sp:
                # the same tree run a second time ("in any run of any scheduler"); the second run is judged.
                # Not for C13 (co_shutdown is sent once in a scheduler's life: "a later explicit shutdown() sends
                # nothing more"); for C14 only without nesting (the jobs of a nested scheduler keep the state of
                # the previous run until the nested run begins: what the API says then is about that earlier run)
                sp['rerun'] = True
                n_ = len(sp['members'])
                # (the added requirement must keep the tree admissible: not on a forever or never-ending job)
                plain = lambda m_: m_['type'] == 'job' and not m_.get('forever') and m_.get('duration') is not None
                free = [(a, b_) for a in range(n_) for b_ in range(a) if (a, b_) not in [tuple(e) for e in sp['edges']]
                        and plain(sp['members'][a]) and plain(sp['members'][b_])]
                if free and r2.random() < 0.5:
                    a, b_ = r2.choice(free)
                    sp['rerun_edge'] = ['top', a, b_]      # and one more requirement added between the two runs
                if r2.random() < 0.4 and prop in ('C03', 'C07', 'C12', 'C01', 'C02'):
                    # and/or the window edited between the runs (kept larger than the number of members that may
                    # never end, as admissibility for C03 demands)
                    never = sum(1 for m_ in sp['members'] if m_.get('forever') or m_['type'] == 'sched')
                    sp['rerun_window'] = r2.choice([None] + [w_ for w_ in (1, 2, 3, 4) if w_ > never])
            if prop == 'C06':
                sp2, flipped = RT.c06_pair(sp, r2)
                if flipped:
                    yield {'kind': 'rt-c06', 'prop': prop, 'spec': sp, 'spec2': sp2, 'flipped': flipped}
                continue
            yield {'kind': 'rt', 'prop': prop, 'spec': sp}
    return gen


def c14_job_run(case):
    """jobs built from a coroutine object (`Job(coro)`), whose body returns an ordinary value or an object that happens to
    be awaitable (a future, a task it launched, a coroutine object): once the body has returned the job is done and
    result() is the very object the body returned -- sampled by a successor job and again after the run"""
    import asyncio
    from asynciojobs import Job
    kind, crit, nested = case['value'], case['critical'], case['nested']
    loop = asyncio.new_event_loop()
    asyncio.set_event_loop(loop)
    loop.set_exception_handler(lambda l, c: None)
    seen, made = {}, []

    async def later(d, exc=None):
        await asyncio.sleep(d)
        if exc is not None:
            raise exc
        return 'background-over'

    async def body():
        await asyncio.sleep(0)
        if kind == 'plain':
            v = ('a', 'value')
        elif kind == 'none':
            v = None
        elif kind == 'pending-future':
            v = loop.create_future()
        elif kind == 'done-future':
            v = loop.create_future()
            v.set_result('x')
        elif kind == 'failed-future':
            v = loop.create_future()
            v.set_exception(RuntimeError('background failure'))
            v.exception()
        elif kind == 'task':
            v = asyncio.ensure_future(later(0.05))
        elif kind == 'failing-task':
            v = asyncio.ensure_future(later(0.02, RuntimeError('background failure')))
        else:
            v = later(0)
        made.append(v)
        return v

    launcher = Job(body(), label='launcher', critical=crit)

    async def probe():
        seen['done'] = launcher.is_done()
        seen['same'] = launcher.is_done() and launcher.result() is made[0]
        seen['exc'] = launcher.raised_exception()
    succ = Job(probe(), label='probe', required=launcher)
    inner = Scheduler(launcher, succ, label='inner')
    top = Scheduler(inner, label='top') if nested else inner
    err = None
    try:
        ok = loop.run_until_complete(asyncio.wait_for(top.co_run(), 1.0))
        if ok is not True:
            err = 'the run returned %r although no job raised (%s)' % (ok, top.why())
        elif not seen.get('done'):
            err = 'a job requiring the launcher started while launcher.is_done() was %r' % seen.get('done')
        elif not seen['same'] or launcher.result() is not made[0]:
            err = 'result() is not the object the body returned (a %s)' % kind
        elif seen['exc'] is not None or launcher.raised_exception() is not None:
            err = 'raised_exception() reports %r for a body that returned' % (launcher.raised_exception(),)
    except asyncio.TimeoutError:
        err = 'the run does not end: the job whose body returned a %s never counts as done' % kind
    except Exception as exc:                                      # pylint: disable=broad-except
        err = 'the run raised %r although no job body raised' % (exc,)
    finally:
        for v in made:
            if asyncio.iscoroutine(v):
                v.close()
            elif isinstance(v, asyncio.Future) and not v.done():
                v.cancel()
        try:
            loop.run_until_complete(asyncio.sleep(0.03))
        finally:
            asyncio.set_event_loop(None)
            loop.close()
    return err


def rt_run(case):
    from replay import runtime as RT
    if case['kind'] == 'c14-job':
        return c14_job_run(case)
    if case['kind'] == 'rt-c06':
        return RT.o_c06(case['spec'], case['spec2'], case['flipped'])
    if case['kind'] == 'rt-c10':
        return RT.o_c10(case['spec'])
    if case['kind'] == 'rt-c10s':
        return RT.run_oracle('C10', case['spec'])
    if case['prop'] in ('C06', 'C10') and case['spec'].get('rerun'):
        return None      # the relational properties are judged on single runs
    if case['prop'] in ('C06', 'C10'):
        # fixed scenarios: checked through the pairing of the property
        if case['prop'] == 'C06':
            sp2, fl = RT.c06_pair(case['spec'], random.Random(1))
            return RT.o_c06(case['spec'], sp2, fl) if fl else None
        return RT.run_oracle('C10', case['spec'])
    return RT.run_oracle(case['prop'], case['spec'])


def c20_cases(tier, rng):
    from replay import dotcheck
    return dotcheck.cases(tier, rng)


def c20_run(case):
    from replay import dotcheck
    return dotcheck.run(case)


PROPS = {
    'C20': (c20_cases, c20_run, 'every label of a 27-string alphabet (quotes, newlines, DOT punctuation, keywords, non-ASCII) at every '
            'position of a fixed tree, all flag assignments, all requirement DAGs over up to 3 (quick) / sampled 4 (thorough) members '
            'each of 7 shapes (atomic, empty / 1-job / 2-job nested schedulers, depth-3 nestings), 400 / 6000 random trees up to depth 3; '
            '8 + 150 / 3000 trees queried, then edited, then drawn (nothing an earlier call computed may show); '
            'dot_format() parsed by an independent DOT-subset parser and compared with the tree, list() output read back; '
            'non-trivial = every distinct tree'),
    'C15': (c15_cases, c15_run, 'all loop-free digraphs up to 4 (quick) / sampled 5 (thorough) nodes at three '
            'placements, random digraphs on 5-8 nodes, add/remove mutation sequences; non-trivial = at least one edge'),
    'C18': (c18_cases, c18_run, 'all DAGs up to 4 nodes: every bypass target, start/end subsets of size <= 2 with random keep flags, '
            'keep_only subsets; random DAGs up to 9/12 nodes with sequences of 1-3 operations; compared with the documented subset, the exact '
            'requirement edges and (bypass) the transitive must-run-before relation; non-trivial = at least one edge'),
    'C19': (c19_cases, c19_run, 'random programs of 1-7 construction operations over 6 jobs, 2 schedulers, nested '
            'list/tuple/set arguments up to depth 3, interpreted by the library and by a reference model of the documented '
            'semantics, compared after every operation; 40 / 400 constructor cases (one collection given as required= to several '
            'constructors stays the caller\'s and is not shared); non-trivial = every distinct program'),
    **{p: (rt_cases(p), rt_run, 'hand-written scenarios for the situations the statement singles out, then seeded random '
           'scheduler trees (depth <= 2, <= 4 members per level, windows, timeouts, critical/forever flags, raising jobs, '
           'zero durations, slow cancellation and shutdown handlers) run on the real code in virtual time and judged by a '
           'trace oracle written from the statement; non-trivial = every distinct scenario')
       for p in ('C01', 'C02', 'C03', 'C04', 'C05', 'C06', 'C07', 'C08', 'C09', 'C10', 'C11', 'C12', 'C13', 'C14')},
    'C16': (c16_cases, c16_run, 'random scheduler trees of depth <= 3 with requirement edges inside schedulers, and (3 in 4) '
            'edges to outsiders, siblings, parents, children, nested schedulers; a third of the trees also hold jobs declared with '
            'required= collections, the same object given to several constructors; non-trivial = every case (seeded tree)'),
    'C17': (c17_cases, c17_run, 'all DAGs up to 4 nodes with all start sets of size <= 2, random DAGs up to 8/12 '
            'nodes with forever flags, random trees for iterate_jobs, edit sequences; non-trivial = at least one edge or nested scheduler'),
}


import signal

CASE_BUDGET_S = 10          # per case; the slowest legitimate case takes well under a second


class CaseTimeout(BaseException):
    pass


def _on_alarm(signum, frame):
    raise CaseTimeout()


signal.signal(signal.SIGALRM, _on_alarm)


def nontrivial(case):
    return bool(case.get('edges')) or case['kind'].endswith('tree') or case['kind'].endswith('op') or 'seed' in case or 'prog' in case or 'spec' in case


def main(argv):
    prop = argv[1]
    if prop not in PROPS:
        print(json.dumps({'evaluations': 0, 'distinct_nontrivial': 0, 'failures': [], 'skipped': 'no bounded check for ' + prop}))
        return 0
    cases_fn, run, rule = PROPS[prop]
    if '--replay-case' in argv:
        case = json.loads(argv[argv.index('--replay-case') + 1])
        case = case.get('case', case)
        err = run(case)
        print('REPLAY', 'FAILS: ' + err if err else 'passes', json.dumps(case)[:300])
        return 1 if err else 0
    tier = argv[argv.index('--tier') + 1] if '--tier' in argv else 'quick'
    seed = int(argv[argv.index('--seed') + 1]) if '--seed' in argv else 0
    rng = random.Random(seed)
    n = 0
    seen = set()
    failures, samples = [], []
    tagged = {}
    hung = 0
    for case in cases_fn(tier, rng):
        n += 1
        key = json.dumps(case, sort_keys=True)
        if nontrivial(case):
            seen.add(key)
        try:
            signal.alarm(CASE_BUDGET_S)
            err = run(case)
        except CaseTimeout:
            err = 'no answer within %d s of CPU-bound execution (busy loop?): the real code neither returns nor raises' % CASE_BUDGET_S
            hung += 1
        except Exception as exc:          # the real code crashed on an admissible input
            err = 'exception %r' % (exc,)
        finally:
            signal.alarm(0)
        if err:
            # failures carrying a [tag] (candidates for a listed known finding) are capped per tag so that
            # they never crowd out a different failure
            tag = err[:err.index(']') + 1] if err.startswith('[') and ']' in err else ''
            tagged[tag] = tagged.get(tag, 0) + 1
            if tagged[tag] <= (2 if tag else 5):
                failures.append({'id': '%s-%d' % (case['kind'], n), 'what': err, 'case': case})
        if n % 997 == 1 and len(samples) < 5:
            samples.append(case)
        if hung >= 3:
            break             # three hung cases are a verdict; exploring on would only burn the time budget
    print(json.dumps({'evaluations': n, 'distinct_nontrivial': len(seen), 'failures': failures,
                      'samples': samples, 'rule': rule, 'bound': rule, 'exhaustive': False}))
    return 1 if failures else 0


if __name__ == '__main__':
    sys.exit(main(sys.argv))
