/-
L2 — the set the contracts of `_neighbours_closure` / `successors_downstream` / `predecessors_upstream`
characterise (least set that contains the neighbours of the starts and is closed under taking
neighbours: both inclusions are postconditions) is exactly the set of jobs reachable from a start
through one or more links.  `R a b` reads "b is a neighbour of a".
-/
import Mathlib

namespace Closure

variable {α : Type*} (R : α → α → Prop) (starts : Set α)

def Reach : Set α := {y | ∃ s ∈ starts, Relation.TransGen R s y}

/-- contains the neighbours of the starts -/
theorem reach_base {s y : α} (hs : s ∈ starts) (h : R s y) : y ∈ Reach R starts :=
  ⟨s, hs, Relation.TransGen.single h⟩

/-- closed under neighbours -/
theorem reach_closed {y z : α} (hy : y ∈ Reach R starts) (h : R y z) : z ∈ Reach R starts := by
  obtain ⟨s, hs, hsy⟩ := hy
  exact ⟨s, hs, Relation.TransGen.tail hsy h⟩

/-- least such set -/
theorem reach_least (K : Set α) (hbase : ∀ s ∈ starts, ∀ y, R s y → y ∈ K)
    (hclosed : ∀ y ∈ K, ∀ z, R y z → z ∈ K) : Reach R starts ⊆ K := by
  rintro y ⟨s, hs, hsy⟩
  induction hsy with
  | single h => exact hbase s hs _ h
  | tail _ hbc ih => exact hclosed _ ih _ hbc

/-- hence any set with the three properties of the postcondition *is* the reachable set -/
theorem closure_unique (C : Set α) (hbase : ∀ s ∈ starts, ∀ y, R s y → y ∈ C)
    (hclosed : ∀ y ∈ C, ∀ z, R y z → z ∈ C)
    (hleast : ∀ K : Set α, (∀ s ∈ starts, ∀ y, R s y → y ∈ K) → (∀ y ∈ K, ∀ z, R y z → z ∈ K) → C ⊆ K) :
    C = Reach R starts := by
  apply Set.Subset.antisymm
  · exact hleast _ (fun s hs y h => reach_base R starts hs h) (fun y hy z h => reach_closed R starts hy h)
  · exact reach_least R starts C hbase hclosed

end Closure
