/-
L1 — the first-order form of (a)cyclicity used by the contracts of topological_order / check_cycles
(contracts/spec.py, `self_supporting`) is the usual one:

  a finite requirement graph has a non-empty self-supporting set of jobs
  (every element of U requires an element of U)   ↔   some job reaches itself through ≥ 1 requirement links.

`E u r` reads "u requires r".
-/
import Mathlib

namespace Acyclic

variable {α : Type*} (E : α → α → Prop)

def SelfSupporting (U : Set α) : Prop := U.Nonempty ∧ ∀ u ∈ U, ∃ r ∈ U, E u r

/-- a cycle gives a self-supporting set: the jobs on the cycle -/
theorem selfSupporting_of_cycle {x : α} (hx : Relation.TransGen E x x) :
    SelfSupporting E {y | Relation.TransGen E x y ∧ Relation.TransGen E y x} := by
  refine ⟨⟨x, hx, hx⟩, ?_⟩
  intro y ⟨hxy, hyx⟩
  rcases (Relation.TransGen.head'_iff.mp hyx) with ⟨r, hyr, hrx⟩
  refine ⟨r, ⟨Relation.TransGen.tail hxy hyr, ?_⟩, hyr⟩
  rcases (Relation.reflTransGen_iff_eq_or_transGen.mp hrx) with heq | htg
  · rw [heq] at hx ⊢
    exact hx
  · exact htg

/-- iterating a choice function along requirement links -/
theorem transGen_iterate {U : Set α} (f : U → U) (hf : ∀ u : U, E u.1 (f u).1) (y : U) :
    ∀ n : ℕ, Relation.TransGen E y.1 (f^[n + 1] y).1 := by
  intro n
  induction n with
  | zero => exact Relation.TransGen.single (hf y)
  | succ n ih =>
    rw [Function.iterate_succ_apply']
    exact Relation.TransGen.tail ih (hf _)

/-- a finite self-supporting set contains a cycle -/
theorem cycle_of_selfSupporting {U : Set α} (hfin : U.Finite) (h : SelfSupporting E U) :
    ∃ y ∈ U, Relation.TransGen E y y := by
  obtain ⟨⟨u0, hu0⟩, hsup⟩ := h
  have : Finite U := hfin.to_subtype
  -- a choice function inside U
  choose! g hgU hgE using hsup
  let f : U → U := fun u => ⟨g u.1, hgU u.1 u.2⟩
  have hf : ∀ u : U, E u.1 (f u).1 := fun u => hgE u.1 u.2
  -- pigeonhole on the orbit of u0
  obtain ⟨i, j, hij, heq⟩ := Finite.exists_ne_map_eq_of_infinite (fun n : ℕ => f^[n] ⟨u0, hu0⟩)
  wlog hlt : i < j generalizing i j
  · exact this j i (Ne.symm hij) heq.symm (lt_of_le_of_ne (not_lt.mp hlt) (Ne.symm hij))
  let y : U := f^[i] ⟨u0, hu0⟩
  refine ⟨y.1, y.2, ?_⟩
  obtain ⟨k, hk⟩ : ∃ k, j = i + (k + 1) := ⟨j - i - 1, by omega⟩
  have hy : f^[k + 1] y = y := by
    show f^[k + 1] (f^[i] ⟨u0, hu0⟩) = f^[i] ⟨u0, hu0⟩
    rw [← Function.iterate_add_apply, Nat.add_comm (k + 1) i, ← hk]
    exact heq.symm
  have := transGen_iterate E f hf y k
  rw [hy] at this
  exact this

/-- L1 -/
theorem selfSupporting_iff_cycle {J : Set α} (hfin : J.Finite) :
    (∃ U ⊆ J, SelfSupporting E U) ↔
    (∃ U ⊆ J, ∃ y ∈ U, Relation.TransGen E y y ∧ SelfSupporting E U) := by
  constructor
  · rintro ⟨U, hUJ, hU⟩
    obtain ⟨y, hy, hcyc⟩ := cycle_of_selfSupporting E (hfin.subset hUJ) hU
    exact ⟨U, hUJ, y, hy, hcyc, hU⟩
  · rintro ⟨U, hUJ, _, _, _, hU⟩
    exact ⟨U, hUJ, hU⟩

/-- closedness keeps everything reachable from a member inside the member set -/
theorem reach_in_members {J : Set α} (hclosed : ∀ u ∈ J, ∀ r, E u r → r ∈ J) {x y : α} (hx : x ∈ J)
    (h : Relation.TransGen E x y) : y ∈ J := by
  induction h with
  | single hxy => exact hclosed _ hx _ hxy
  | tail _ hbc ih => exact hclosed _ ih _ hbc

/-- the two directions as used in DESIGN §5.2: for a closed finite member set J,
    "no non-empty self-supporting subset of J" ↔ "no member of J reaches itself" -/
theorem acyclic_iff {J : Set α} (hfin : J.Finite) (hclosed : ∀ u ∈ J, ∀ r, E u r → r ∈ J) :
    (¬ ∃ U ⊆ J, SelfSupporting E U) ↔ (∀ x ∈ J, ¬ Relation.TransGen E x x) := by
  constructor
  · intro hno x hx hcyc
    apply hno
    refine ⟨_, ?_, selfSupporting_of_cycle E hcyc⟩
    intro y hy
    exact reach_in_members E hclosed hx hy.1
  · rintro hno ⟨U, hUJ, hU⟩
    obtain ⟨y, hy, hcyc⟩ := cycle_of_selfSupporting E (hfin.subset hUJ) hU
    exact hno y (hUJ hy) hcyc

end Acyclic
