/-
L3 — "precedence among the remaining jobs is unchanged" by bypass_and_remove(v).

The relational postcondition proved by SMT (contracts/c_surgery.py) says: v is gone; a job d that
required v now requires (its old requirements minus v) plus v's own requirements; nothing else changes.
With `E d r` = "d requires r" and v not requiring itself this is the relation E' below.  The lemma:
for jobs a, b other than v, a transitively requires b after the operation iff it did before.
-/
import Mathlib

namespace Bypass

open Classical

variable {α : Type*} (E : α → α → Prop) (v : α)

def E' (d r : α) : Prop := d ≠ v ∧ r ≠ v ∧ (E d r ∨ (E d v ∧ E v r))

/-- the form of the postcondition: for a job that required v / did not require v -/
theorem E'_iff_post (hv : ¬ E v v) (d r : α) (hd : d ≠ v) :
    E' E v d r ↔ (if E d v then ((E d r ∧ r ≠ v) ∨ E v r) else E d r) := by
  unfold E'
  by_cases hdv : E d v
  · rw [if_pos hdv]
    constructor
    · rintro ⟨_, hr, h | h⟩
      · exact Or.inl ⟨h, hr⟩
      · exact Or.inr h.2
    · rintro (⟨h, hr⟩ | h)
      · exact ⟨hd, hr, Or.inl h⟩
      · refine ⟨hd, ?_, Or.inr ⟨hdv, h⟩⟩
        intro hr
        rw [hr] at h
        exact hv h
  · rw [if_neg hdv]
    constructor
    · rintro ⟨_, _, h | h⟩
      · exact h
      · exact absurd h.1 hdv
    · intro h
      refine ⟨hd, ?_, Or.inl h⟩
      intro hr
      rw [hr] at h
      exact hdv h

theorem old_of_new_step {x y : α} (h : E' E v x y) : Relation.TransGen E x y := by
  obtain ⟨_, _, h | ⟨h1, h2⟩⟩ := h
  · exact Relation.TransGen.single h
  · exact Relation.TransGen.tail (Relation.TransGen.single h1) h2

/-- new precedence is old precedence -/
theorem old_of_new {a b : α} (h : Relation.TransGen (E' E v) a b) : Relation.TransGen E a b := by
  induction h with
  | single h => exact old_of_new_step E v h
  | tail _ hbc ih => exact Relation.TransGen.trans ih (old_of_new_step E v hbc)

/-- old precedence between remaining jobs is new precedence -/
theorem new_of_old (hv : ¬ E v v) {a b : α} (ha : a ≠ v) (h : Relation.TransGen E a b) :
    (b ≠ v → Relation.TransGen (E' E v) a b) ∧
    (b = v → ∀ r, E v r → Relation.TransGen (E' E v) a r) := by
  induction h with
  | single hab =>
    constructor
    · intro hb
      exact Relation.TransGen.single ⟨ha, hb, Or.inl hab⟩
    · intro hb r hvr
      rw [hb] at hab
      refine Relation.TransGen.single ⟨ha, ?_, Or.inr ⟨hab, hvr⟩⟩
      intro hr
      rw [hr] at hvr
      exact hv hvr
  | @tail c b _ hcb ih =>
    by_cases hc : c = v
    · rw [hc] at hcb
      constructor
      · intro _
        exact ih.2 hc b hcb
      · intro hb
        rw [hb] at hcb
        exact absurd hcb hv
    · have hac := ih.1 hc
      constructor
      · intro hb
        exact Relation.TransGen.tail hac ⟨hc, hb, Or.inl hcb⟩
      · intro hb r hvr
        rw [hb] at hcb
        refine Relation.TransGen.tail hac ⟨hc, ?_, Or.inr ⟨hcb, hvr⟩⟩
        intro hr
        rw [hr] at hvr
        exact hv hvr

/-- L3 -/
theorem precedence_unchanged (hv : ¬ E v v) {a b : α} (ha : a ≠ v) (hb : b ≠ v) :
    Relation.TransGen (E' E v) a b ↔ Relation.TransGen E a b :=
  ⟨old_of_new E v, fun h => (new_of_old E v hv ha h).1 hb⟩

end Bypass
