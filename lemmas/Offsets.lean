/-
  L-OFF-MONO and L-OFF-INV: the offset function of Sequence._flatten,
     off 0 = 0,  off (k+1) = off k + len k      (len k ≥ 0 is a natural number here)
  is monotone, and every position below off m lies in the span of exactly one item below m.
-/
import Mathlib

def off (len : ℕ → ℕ) : ℕ → ℕ
  | 0 => 0
  | k + 1 => off len k + len k

theorem off_mono (len : ℕ → ℕ) : ∀ k m, k ≤ m → off len k ≤ off len m := by
  intro k m h
  induction h with
  | refl => exact le_refl _
  | step _ ih => exact le_trans ih (Nat.le_add_right _ _)

/-- every position q < off m belongs to the span [off i, off (i+1)) of some item i < m -/
theorem off_inv (len : ℕ → ℕ) : ∀ m q, q < off len m → ∃ i, i < m ∧ off len i ≤ q ∧ q < off len (i + 1) := by
  intro m
  induction m with
  | zero => intro q h; simp [off] at h
  | succ m ih =>
    intro q h
    by_cases hq : q < off len m
    · obtain ⟨i, hi, h1, h2⟩ := ih q hq
      exact ⟨i, Nat.lt_succ_of_lt hi, h1, h2⟩
    · exact ⟨m, Nat.lt_succ_self m, Nat.le_of_not_lt hq, h⟩
