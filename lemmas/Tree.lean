/-
L5 — the tree axioms used by the contracts (contracts/spec.py, `tree_axioms`), proved for every
forest given by a parent function that admits a height (i.e. has no cycle).

Correspondence with the SMT vocabulary:
  owner(x) = s          parent x = some s        (owner(x) = None: parent x = none)
  under(x, s)           Under parent x s         (transitive closure of the parent step)
  height                h, with  parent x = some p → h x < h p
  isa PureScheduler(s)  sched s, with  parent x = some p → sched p  (only schedulers own jobs)
  topm(x, s)            the witness of `under_top`
-/
import Mathlib

namespace Tree

variable {α : Type*} (parent : α → Option α)

def Step (x p : α) : Prop := parent x = some p

def Under (x s : α) : Prop := Relation.TransGen (Step parent) x s

theorem step_functional {x p q : α} (h1 : Step parent x p) (h2 : Step parent x q) : p = q := by
  unfold Step at h1 h2
  rw [h1] at h2
  exact Option.some.inj h2

/-- axiom 3: a job lies under its owner -/
theorem under_owner {x p : α} (h : parent x = some p) : Under parent x p :=
  Relation.TransGen.single h

/-- axiom 4: one step up -/
theorem under_up {x s p : α} (h : Under parent x s) (hp : parent s = some p) : Under parent x p :=
  Relation.TransGen.tail h hp

/-- axiom 5: transitivity -/
theorem under_trans {x a s : α} (h1 : Under parent x a) (h2 : Under parent a s) : Under parent x s :=
  Relation.TransGen.trans h1 h2

/-- axiom 2 (first unfolding): x has an owner, which is s or lies under s -/
theorem under_first {x s : α} (h : Under parent x s) :
    ∃ p, parent x = some p ∧ (p = s ∨ Under parent p s) := by
  rcases (Relation.TransGen.head'_iff.mp h) with ⟨p, hxp, hps⟩
  refine ⟨p, hxp, ?_⟩
  rcases (Relation.reflTransGen_iff_eq_or_transGen.mp hps) with heq | htg
  · exact Or.inl heq.symm
  · exact Or.inr htg

/-- axiom 8 (second unfolding): x is a member of s or lies under a member of s -/
theorem under_top {x s : α} (h : Under parent x s) :
    parent x = some s ∨ ∃ m, parent m = some s ∧ Under parent x m := by
  rcases (Relation.TransGen.tail'_iff.mp h) with ⟨m, hxm, hms⟩
  rcases (Relation.reflTransGen_iff_eq_or_transGen.mp hxm) with heq | htg
  · left
    rw [heq] at hms
    exact hms
  · right
    exact ⟨m, hms, htg⟩

/-- only schedulers own jobs: whatever something lies under is a scheduler -/
theorem under_sched {sched : α → Prop} (hs : ∀ x p, parent x = some p → sched p)
    {x s : α} (h : Under parent x s) : sched s := by
  rcases (Relation.TransGen.tail'_iff.mp h) with ⟨m, _, hms⟩
  exact hs m s hms

section height
variable (h : α → ℕ) (hh : ∀ x p, parent x = some p → h x < h p)
include hh

/-- axiom 2 (height part) -/
theorem under_height {x s : α} (hu : Under parent x s) : h x < h s := by
  induction hu with
  | single hxp => exact hh _ _ hxp
  | tail _ hbc ih => exact lt_trans ih (hh _ _ hbc)

/-- axiom 7: nothing lies under itself -/
theorem under_irrefl (x : α) : ¬ Under parent x x := by
  intro hu
  exact lt_irrefl _ (under_height parent h hh hu)

end height

/-- axiom 6: the schedulers above a job form a chain -/
theorem under_chain {x a b : α} (ha : Under parent x a) (hb : Under parent x b) (hne : a ≠ b) :
    Under parent a b ∨ Under parent b a := by
  induction ha using Relation.TransGen.head_induction_on with
  | single hxa =>
    -- parent x = a
    rcases (Relation.TransGen.head'_iff.mp hb) with ⟨p, hxp, hpb⟩
    have hpa : p = _ := step_functional parent hxp hxa
    subst hpa
    rcases (Relation.reflTransGen_iff_eq_or_transGen.mp hpb) with heq | htg
    · exact absurd heq.symm hne
    · exact Or.inl htg
  | head hxp hpa ih =>
    -- parent x = p, p under a
    rcases (Relation.TransGen.head'_iff.mp hb) with ⟨p', hxp', hpb⟩
    have hpp : p' = _ := step_functional parent hxp' hxp
    subst hpp
    rcases (Relation.reflTransGen_iff_eq_or_transGen.mp hpb) with heq | htg
    · -- b = p : b lies under a
      right
      rw [heq]
      exact hpa
    · exact ih htg

/-- two distinct members of one scheduler are not under each other (used to keep the subtrees of the
members of one scheduler apart) -/
theorem members_apart (h : α → ℕ) (hh : ∀ x p, parent x = some p → h x < h p)
    {a b s : α} (ha : parent a = some s) (hb : parent b = some s) : ¬ Under parent a b := by
  intro hab
  have h1 : Under parent a s := under_trans parent hab (under_owner parent hb)
  rcases under_first parent hab with ⟨p, hap, hps⟩
  have : p = s := step_functional parent hap ha
  subst this
  rcases hps with heq | hu
  · -- s = b, but b lies under s
    rw [← heq] at hb
    exact under_irrefl parent h hh _ (under_owner parent hb)
  · exact under_irrefl parent h hh _ (under_trans parent hu (under_owner parent hb))

end Tree
