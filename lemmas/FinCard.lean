/-
  Finite-cardinality lemma instances K2..K9 used by the SMT contracts (pyvc/logic.py), stated over Finset.
  Every set of the encoding is the set of elements of a python `set`/`list`, hence finite.
-/
import Mathlib

open Finset

variable {α : Type*} [DecidableEq α]

/-- K2: adding a new element increases the cardinal by one. -/
theorem K2 (A : Finset α) (x : α) (h : x ∉ A) : (insert x A).card = A.card + 1 :=
  card_insert_of_notMem h

/-- K2r: removing a member decreases the cardinal by one. -/
theorem K2r (A : Finset α) (x : α) (h : x ∈ A) : (A.erase x).card = A.card - 1 :=
  card_erase_of_mem h

/-- K3: monotonicity. -/
theorem K3 (A B : Finset α) (h : A ⊆ B) : A.card ≤ B.card := card_le_card h

/-- K4: a subset that is not smaller is the whole set. -/
theorem K4 (A B : Finset α) (h : A ⊆ B) (hc : B.card ≤ A.card) : A = B :=
  eq_of_subset_of_card_le h hc

/-- K5: disjoint union. -/
theorem K5 (A B : Finset α) (h : Disjoint A B) : (A ∪ B).card = A.card + B.card :=
  card_union_of_disjoint h

/-- K7: cardinal zero iff empty. -/
theorem K7 (A : Finset α) : A.card = 0 ↔ A = ∅ := card_eq_zero

/-- K8 (card_bij'): mutually inverse maps between two finite sets. -/
theorem K8 {β : Type*} (A : Finset α) (B : Finset β) (f : α → β) (g : β → α)
    (h1 : ∀ a ∈ A, f a ∈ B ∧ g (f a) = a) (h2 : ∀ b ∈ B, g b ∈ A ∧ f (g b) = b) : A.card = B.card := by
  apply card_bij' (fun a _ => f a) (fun b _ => g b)
  · intro a ha; exact (h1 a ha).1
  · intro b hb; exact (h2 b hb).1
  · intro a ha; exact (h1 a ha).2
  · intro b hb; exact (h2 b hb).2

/-- K9 (pigeonhole): an injective map (it has a left inverse) into a set that is not larger is onto. -/
theorem K9 {β : Type*} [DecidableEq β] (A : Finset α) (B : Finset β) (f : α → β) (g : β → α)
    (h1 : ∀ a ∈ A, f a ∈ B ∧ g (f a) = a) (hc : B.card ≤ A.card) :
    ∀ b ∈ B, g b ∈ A ∧ f (g b) = b := by
  have hinj : Set.InjOn f A := by
    intro a ha a' ha' hff
    have := (h1 a ha).2
    have h' := (h1 a' ha').2
    rw [hff] at this
    exact this.symm.trans h'
  have himg : A.image f ⊆ B := by
    intro b hb
    obtain ⟨a, ha, rfl⟩ := mem_image.mp hb
    exact (h1 a ha).1
  have hcard : (A.image f).card = A.card := card_image_of_injOn hinj
  have heq : A.image f = B := eq_of_subset_of_card_le himg (by rw [hcard]; exact hc)
  intro b hb
  rw [← heq] at hb
  obtain ⟨a, ha, rfl⟩ := mem_image.mp hb
  have := (h1 a ha).2
  rw [this]
  exact ⟨ha, rfl⟩
