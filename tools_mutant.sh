#!/bin/bash
# usage: tools_mutant.sh <name> <python-snippet-file-that-edits-cwd-copy> <functions...>
# scratch helper for development: copies /repo/asynciojobs to a temp dir, applies an edit, runs the driver
set -e
d=$(mktemp -d /tmp/mut.XXXXXX)
trap 'rm -rf "$d"' EXIT
cp -r /repo/asynciojobs "$d/"
snippet="$1"; shift
(cd "$d" && python3 -c "$snippet")
cd /verif && VERIF_REPO="$d" python3-vt -m pyvc.driver "$@"
