"""
pyvc.wf -- heap well-formedness (type and separation invariants of the object graph).

These are *input validity* facts (DESIGN 5.1, "A-SEP"): they are assumed on entry of every
function under contract, and they are proof obligations again wherever a function or a loop
modifies a field they mention, so they are established and preserved, never just assumed.
"""
import z3
from . import logic as L

L.register_ghost('$setowner', z3.ArraySort(L.Ref, L.Ref))
L.register_ghost('$setrole', z3.ArraySort(L.Ref, L.I))

ROLE = {'required': 1, '_s_successors': 2, 'jobs': 3}
JOB_SET_FIELDS = ['required', '_s_successors']
SCHED_SET_FIELDS = ['jobs']


EXTRA_CLAUSES = []      # registered by contracts: fn(st) -> [(label, formula, fields)]


def wf_clauses(st):
    """list of (label, formula, fields mentioned)"""
    o = L.fresh('o', L.Ref)
    x = L.fresh('x', L.Ref)
    s = L.fresh('s', L.Ref)
    out = []
    out.append(('consts-alive', z3.And(st.alive(L.NONE), st.alive(L.TRUE), st.alive(L.FALSE)),
                {'$alive'}))
    for f in JOB_SET_FIELDS:
        v = st.f(f, o)
        out.append(('sep[%s]' % f,
                    L.FA([o], z3.Implies(z3.And(st.alive(o), L.isa['AbstractJob'](o)),
                                              z3.And(st.alive(v), L.isa['set'](v),
                                                     st.f('$setowner', v) == o,
                                                     st.f('$setrole', v) == ROLE[f])),
                              patterns=[st.f(f, o)]),
                    {f, '$alive', '$setowner', '$setrole'}))
        out.append(('typed[%s]' % f,
                    L.FA([o, x], z3.Implies(z3.And(st.alive(o), L.isa['AbstractJob'](o),
                                                        st.mem(st.f(f, o), x)),
                                                 z3.And(L.isa['AbstractJob'](x), st.alive(x))),
                              patterns=[st.mem(st.f(f, o), x)]),
                    {f, '$alive', '$elems'}))
    for f in SCHED_SET_FIELDS:
        v = st.f(f, o)
        out.append(('sep[%s]' % f,
                    L.FA([o], z3.Implies(z3.And(st.alive(o), L.isa['PureScheduler'](o)),
                                              z3.And(st.alive(v), L.isa['set'](v),
                                                     st.f('$setowner', v) == o,
                                                     st.f('$setrole', v) == ROLE[f])),
                              patterns=[st.f(f, o)]),
                    {f, '$alive', '$setowner', '$setrole'}))
        out.append(('typed[%s]' % f,
                    L.FA([o, x], z3.Implies(z3.And(st.alive(o), L.isa['PureScheduler'](o),
                                                        st.mem(st.f(f, o), x)),
                                                 z3.And(L.isa['AbstractJob'](x), st.alive(x))),
                              patterns=[st.mem(st.f(f, o), x)]),
                    {f, '$alive', '$elems'}))
    for fn in EXTRA_CLAUSES:
        out.extend(fn(st))
    return out


def wf_assume(st):
    return [fm for _, fm, _ in wf_clauses(st)]


def wf_obligations(st, modified):
    """clauses that mention a modified field"""
    modified = set(modified)
    return [(lab, fm) for lab, fm, fs in wf_clauses(st) if fs & modified]
