"""development helper: re-check one obligation with variations"""
import sys, time
import z3
from . import driver, logic as L


def get(qualname, idx):
    frs = driver.generate([qualname])
    fr = frs[0]
    if fr.undecided:
        print(fr.undecided)
        sys.exit(1)
    return [o for o in fr.obligations if o.name.endswith('#%d' % idx)][0]


def check(ob, timeout=60000, drop=None, extra=None):
    s = z3.Solver()
    s.set('timeout', timeout)
    for a in L.background_axioms() + L.str_const_axioms():
        s.add(a)
    for i, a in enumerate(ob.assumptions):
        if drop and i in drop:
            continue
        s.add(a)
    for a in extra or []:
        s.add(a)
    s.add(z3.Not(ob.goal))
    t = time.time()
    r = s.check()
    return r, time.time() - t, s


if __name__ == '__main__':
    ob = get(sys.argv[1], int(sys.argv[2]))
    print(ob.name, len(ob.assumptions))
    if len(sys.argv) > 3 and sys.argv[3] == 'dump':
        for i, a in enumerate(ob.assumptions):
            print(i, a)
        print('GOAL', ob.goal)
    r, t, s = check(ob, int(sys.argv[4]) if len(sys.argv) > 4 else 60000)
    print(r, '%.1fs' % t, s.reason_unknown() if r == z3.unknown else '')
