"""
pyvc.extract -- read the functions under contract from the working tree of the repository,
mechanically normalise them (DESIGN.md 3.2) and fingerprint their shape.

Nothing here is a model: the AST handed to the symbolic executor is the AST of the file on
disk, minus the rewrites listed in NORMALISATIONS, each of which is counted.
"""
import ast
import copy
import hashlib
import os

REPO = os.environ.get('VERIF_REPO', '/repo')
PKG = 'asynciojobs'
FILES = ['job.py', 'sequence.py', 'window.py', 'purescheduler.py', 'scheduler.py',
         'dotstyle.py', 'bestset.py']

NORMALISATIONS = [
    'docstring removed', 'print() statement -> no-op (arguments with calls still evaluated)',
    'if DEBUG: block dropped (module binds DEBUG = False exactly once)',
    'import inside function dropped', 'annotation removed',
    'effectful comprehension -> explicit loop',
    'return sum(e for v in it) -> acc = 0; for v in it: acc = acc + e; return acc',
]


class FuncInfo:
    def __init__(self, qualname, file, node, src, cls, module_tree):
        self.qualname = qualname
        self.file = file
        self.node = node            # normalised copy
        self.src = src
        self.cls = cls              # enclosing class name or None
        self.sha256 = hashlib.sha256(src.encode()).hexdigest()
        self.lineno = node.lineno
        self.end_lineno = node.end_lineno
        self.dropped = {}
        self.module_tree = module_tree
        self.is_async = isinstance(node, ast.AsyncFunctionDef)
        self.is_generator = any(isinstance(n, (ast.Yield, ast.YieldFrom)) for n in _walk_own(node))


def _walk_own(fn):
    """walk the body of fn without descending into nested function definitions"""
    todo = list(fn.body)
    while todo:
        n = todo.pop()
        yield n
        for ch in ast.iter_child_nodes(n):
            if isinstance(ch, (ast.FunctionDef, ast.AsyncFunctionDef, ast.Lambda)):
                continue
            todo.append(ch)


class Repo:
    def __init__(self, root=None):
        self.root = root or REPO
        self.trees = {}
        self.sources = {}
        for f in FILES:
            p = os.path.join(self.root, PKG, f)
            with open(p) as fh:
                src = fh.read()
            self.sources[f] = src
            self.trees[f] = ast.parse(src, filename=p)
        self._debug_false = {f: self._module_debug_false(t) for f, t in self.trees.items()}

    @staticmethod
    def _module_debug_false(tree):
        binds = [n for n in ast.walk(tree)
                 if isinstance(n, ast.Assign) and any(isinstance(t, ast.Name) and t.id == 'DEBUG'
                                                      for t in n.targets)]
        return len(binds) == 1 and isinstance(binds[0].value, ast.Constant) and binds[0].value.value is False

    def module_rebinds(self, file, name):
        """does the module rebind a builtin name such as print?"""
        for n in ast.walk(self.trees[file]):
            if isinstance(n, (ast.FunctionDef, ast.AsyncFunctionDef, ast.ClassDef)) and n.name == name:
                return True
            if isinstance(n, ast.Assign):
                for t in n.targets:
                    if isinstance(t, ast.Name) and t.id == name:
                        return True
            if isinstance(n, (ast.Import, ast.ImportFrom)):
                for a in n.names:
                    if (a.asname or a.name) == name:
                        return True
        return False

    def class_table(self):
        """{class name: (base names, names bound in the class body)} for the classes of the package, read
        off the source: used to resolve `x.method()` the way Python does (calls.resolve)"""
        if getattr(self, '_class_table', None) is None:
            tab = {}
            for f, tree in self.trees.items():
                for n in tree.body:
                    if not isinstance(n, ast.ClassDef):
                        continue
                    bases = [b.id if isinstance(b, ast.Name) else (b.attr if isinstance(b, ast.Attribute) else '?')
                             for b in n.bases]
                    names = set()
                    for m in n.body:
                        if isinstance(m, (ast.FunctionDef, ast.AsyncFunctionDef, ast.ClassDef)):
                            names.add(m.name)
                        elif isinstance(m, ast.Assign):
                            for t in m.targets:
                                if isinstance(t, ast.Name):
                                    names.add(t.id)
                        elif isinstance(m, ast.AnnAssign) and isinstance(m.target, ast.Name):
                            names.add(m.target.id)
                    tab[n.name] = (bases, names)
            self._class_table = tab
        return self._class_table

    def find(self, file, qualname):
        """qualname: 'Class.method', 'Class.method.<locals>.inner' or 'function'"""
        parts = [p for p in qualname.split('.') if p != '<locals>']
        body = self.trees[file].body
        node = None
        cls = None
        for i, p in enumerate(parts):
            found = None
            for n in body:
                if isinstance(n, (ast.ClassDef, ast.FunctionDef, ast.AsyncFunctionDef)) and n.name == p:
                    found = n
            if found is None:
                return None
            if isinstance(found, ast.ClassDef):
                cls = found.name
            node = found
            body = found.body
        if not isinstance(node, (ast.FunctionDef, ast.AsyncFunctionDef)):
            return None
        src = ast.get_source_segment(self.sources[file], node)
        info = FuncInfo(qualname, file, copy.deepcopy(node), src, cls, self.trees[file])
        self._normalise(info)
        return info

    # ---------------------------------------------------------------- normalisation
    def _normalise(self, info):
        dropped = {k: 0 for k in NORMALISATIONS}
        print_ok = not self.module_rebinds(info.file, 'print')
        debug_false = self._debug_false[info.file]

        class T(ast.NodeTransformer):
            def visit_FunctionDef(self, node):
                return self._fn(node)

            def visit_AsyncFunctionDef(self, node):
                return self._fn(node)

            def _fn(self, node):
                if (node.body and isinstance(node.body[0], ast.Expr)
                        and isinstance(node.body[0].value, ast.Constant)
                        and isinstance(node.body[0].value.value, str)):
                    node.body = node.body[1:] or [ast.Pass()]
                    dropped['docstring removed'] += 1
                if node.returns is not None:
                    node.returns = None
                    dropped['annotation removed'] += 1
                for a in node.args.args + node.args.kwonlyargs + \
                        ([node.args.vararg] if node.args.vararg else []) + \
                        ([node.args.kwarg] if node.args.kwarg else []):
                    if a.annotation is not None:
                        a.annotation = None
                        dropped['annotation removed'] += 1
                self.generic_visit(node)
                if not node.body:
                    node.body = [ast.Pass()]
                return node

            def visit_If(self, node):
                if debug_false and isinstance(node.test, ast.Name) and node.test.id == 'DEBUG' \
                        and not node.orelse:
                    dropped['if DEBUG: block dropped (module binds DEBUG = False exactly once)'] += 1
                    return ast.Pass()
                self.generic_visit(node)
                return node

            def visit_Import(self, node):
                dropped['import inside function dropped'] += 1
                return ast.Pass()

            def visit_ImportFrom(self, node):
                dropped['import inside function dropped'] += 1
                return ast.Pass()

            def visit_Expr(self, node):
                v = node.value
                if print_ok and isinstance(v, ast.Call) and isinstance(v.func, ast.Name) \
                        and v.func.id == 'print':
                    dropped['print() statement -> no-op (arguments with calls still evaluated)'] += 1
                    # keep the calls inside the arguments (they may raise); drop the rest
                    calls = [c for a in v.args for c in ast.walk(a)
                             if isinstance(c, ast.Call) and not _is_format_call(c)]
                    if not calls:
                        return ast.Pass()
                    new = ast.Expr(value=ast.Call(func=ast.Name(id='$print', ctx=ast.Load()),
                                                  args=v.args, keywords=[]))
                    return ast.copy_location(new, node)
                self.generic_visit(node)
                return node

        T().visit(info.node)
        n = _desugar_comprehensions(info.node)
        dropped['effectful comprehension -> explicit loop'] += n
        n = _desugar_sum(info.node)
        dropped['return sum(e for v in it) -> acc = 0; for v in it: acc = acc + e; return acc'] += n
        ast.fix_missing_locations(info.node)
        info.dropped = {k: v for k, v in dropped.items() if v}


def _is_format_call(c):
    return isinstance(c.func, ast.Attribute) and c.func.attr == 'format'


PURE_CALLS = {'len', 'isinstance', 'is_done', 'is_running', 'is_scheduled', 'is_idle',
              'raised_exception', 'is_critical', 'repr_id', 'format', 'dot_cluster_name'}


def _effectful(expr):
    for c in ast.walk(expr):
        if isinstance(c, ast.Call):
            name = c.func.attr if isinstance(c.func, ast.Attribute) else getattr(c.func, 'id', '?')
            if name not in PURE_CALLS:
                return True
        if isinstance(c, ast.Await):
            return True
    return False


def _desugar_comprehensions(fn):
    """x = [f(v) for v in it]  with an effectful f  ==>  x = []; for v in it: x.append(f(v))
    (same evaluation order as the comprehension; only the form handled below is rewritten)."""
    count = 0

    class D(ast.NodeTransformer):
        def visit_Assign(self, node):
            nonlocal count
            v = node.value
            if isinstance(v, ast.ListComp) and len(v.generators) == 1 and not v.generators[0].ifs \
                    and len(node.targets) == 1 and isinstance(node.targets[0], ast.Name) \
                    and _effectful(v.elt):
                tgt = node.targets[0].id
                init = ast.Assign(targets=[ast.Name(id=tgt, ctx=ast.Store())],
                                  value=ast.List(elts=[], ctx=ast.Load()))
                loop = ast.For(target=v.generators[0].target, iter=v.generators[0].iter,
                               body=[ast.Expr(value=ast.Call(
                                   func=ast.Attribute(value=ast.Name(id=tgt, ctx=ast.Load()),
                                                      attr='append', ctx=ast.Load()),
                                   args=[v.elt], keywords=[]))],
                               orelse=[])
                count += 1
                return [ast.copy_location(init, node), ast.copy_location(loop, node)]
            return node

    D().visit(fn)
    return count


def _desugar_sum(fn):
    """return sum(e for v in it)  ==>  $sum = 0; for v in it: $sum = $sum + e; return $sum
    (the builtin starts from int 0 and adds the items in iteration order; only this form, with one `for`
    clause and no `if`, is rewritten, and only when e contains a call: the counting idiom
    `sum(1 for _ in gen())` is left alone)."""
    count = 0

    class D(ast.NodeTransformer):
        def visit_FunctionDef(self, node):
            return node if node is not fn else self.generic_visit(node)
        visit_AsyncFunctionDef = visit_FunctionDef

        def visit_Return(self, node):
            nonlocal count
            v = node.value
            if isinstance(v, ast.Call) and isinstance(v.func, ast.Name) and v.func.id == 'sum' \
                    and len(v.args) == 1 and not v.keywords and isinstance(v.args[0], ast.GeneratorExp) \
                    and len(v.args[0].generators) == 1 and not v.args[0].generators[0].ifs \
                    and not v.args[0].generators[0].is_async \
                    and any(isinstance(c, ast.Call) for c in ast.walk(v.args[0].elt)):
                g = v.args[0]
                acc = '$sum'
                init = ast.Assign(targets=[ast.Name(id=acc, ctx=ast.Store())], value=ast.Constant(value=0))
                loop = ast.For(target=g.generators[0].target, iter=g.generators[0].iter,
                               body=[ast.Assign(targets=[ast.Name(id=acc, ctx=ast.Store())],
                                                value=ast.BinOp(left=ast.Name(id=acc, ctx=ast.Load()),
                                                                op=ast.Add(), right=g.elt))],
                               orelse=[])
                ret = ast.Return(value=ast.Name(id=acc, ctx=ast.Load()))
                count += 1
                return [ast.copy_location(init, node), ast.copy_location(loop, node),
                        ast.copy_location(ret, node)]
            return node

    D().visit(fn)
    return count


def loop_headers(fn_node):
    """headers of the loops of a function in source order (nested functions excluded): what the ordinal of a
    loop contract refers to"""
    out = []

    def rec(stmts, depth):
        for s in stmts:
            if isinstance(s, (ast.FunctionDef, ast.AsyncFunctionDef, ast.ClassDef)):
                continue
            if isinstance(s, (ast.For, ast.AsyncFor)):
                out.append('%d for %s in %s' % (depth, ast.unparse(s.target), ast.unparse(s.iter)))
                rec(s.body, depth + 1)
                rec(s.orelse, depth + 1)
            elif isinstance(s, ast.While):
                out.append('%d while %s' % (depth, ast.unparse(s.test)))
                rec(s.body, depth + 1)
            else:
                for f in ('body', 'orelse', 'finalbody'):
                    rec(getattr(s, f, []) or [], depth)
                for h in getattr(s, 'handlers', []) or []:
                    rec(h.body, depth)
    rec(fn_node.body, 0)
    return out


def shape(fn_node):
    """Shape fingerprint: sequence of loop kinds with nesting depth, awaits, yields, try blocks."""
    out = []

    def rec(stmts, depth):
        for s in stmts:
            if isinstance(s, (ast.FunctionDef, ast.AsyncFunctionDef)):
                continue
            if isinstance(s, ast.For):
                out.append('%sfor' % ('.' * depth))
                rec(s.body, depth + 1)
                rec(s.orelse, depth + 1)
            elif isinstance(s, ast.While):
                out.append('%swhile' % ('.' * depth))
                rec(s.body, depth + 1)
            elif isinstance(s, ast.If):
                rec(s.body, depth)
                rec(s.orelse, depth)
            elif isinstance(s, ast.Try):
                out.append('%stry' % ('.' * depth))
                rec(s.body, depth)
                for h in s.handlers:
                    rec(h.body, depth)
                rec(s.finalbody, depth)
            elif isinstance(s, (ast.With, ast.AsyncWith)):
                out.append('%swith' % ('.' * depth))
                rec(s.body, depth)
    rec(fn_node.body, 0)
    return out
