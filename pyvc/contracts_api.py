"""
pyvc.contracts_api -- how contracts are written (sidecar: no repository file is touched).

A contract is attached to a function of the repository by qualified name.  All spec
functions receive a Ctx and return a z3 Bool (or a list of them).
"""
import types
import z3
from . import logic as L


class Ctx:
    """What a spec function sees."""

    def __init__(self, pre=None, cur=None, args=None, result=None, exc=None):
        self.pre = pre            # state at function entry (call site: state before the call)
        self.cur = cur            # current / post state
        self.a = types.SimpleNamespace(**(args or {}))
        self.args = args or {}
        self.result = result      # z3 term
        self.exc = exc
        self.defs = []            # definitional axioms + lemma instances (sound facts)
        # loops
        self.visited = None       # SetV for loops over sets
        self.index = None         # Int for loops over lists
        self.iterset = None       # SetV snapshot of the iterated set
        self.iterlist = None      # Ref of the iterated list
        self.loop_pre = None      # state just before the loop
        self.elem = None          # current element (hints only)
        self.outer = []           # enclosing loops' (visited/index, iterset/iterlist, elem)
        self.before = None        # rely steps: state before the suspension
        self.contract = None      # the contract being verified (body mode)
        self.ghost = {}           # ghost arguments of the call (predicates / functions chosen by the caller)
        self.entry_ctx = None
        self.cache = {}           # memoised definitional sets of this context
        self.mode = 'prove'       # 'prove' (body verification) | 'assume' (call site)
        self.skolems = None       # per-function skolem constants (shared dict)

    @property
    def post(self):
        return self.cur

    def var(self, name, state=None):
        st = state or self.cur
        if name not in st.env:
            # the contract names a local the function no longer has at this point: shape mismatch,
            # verdict UNDECIDED (the bounded check decides), never a crash and never a violation
            raise L.Unsupported('shape: the contract refers to local %r which the code does not define here' % name)
        v = st.env[name]
        return v.t

    def has_var(self, name, state=None):
        return name in (state or self.cur).env

    def setdef(self, pred, prefix='S', triggers=None):
        return L.setdef(self.defs, pred, prefix, triggers)

    def memo(self, key, mk):
        if key not in self.cache:
            self.cache[key] = mk()
        return self.cache[key]

    def skolem(self, name, mk):
        """a constant fixed for the whole verification of the function (universally quantified
        parameter of a schematic postcondition / invariant)"""
        if self.skolems is None:
            self.skolems = {}
        if name not in self.skolems:
            self.skolems[name] = mk()
        return self.skolems[name]

    def use_schema(self, name, *params):
        """instance of a schematic precondition of the function being verified (e.g. `acyclic` at a
        chosen candidate set): a sound fact about the ENTRY state"""
        fn = self.contract.schemas[name][0]
        e = Ctx(self.pre, self.pre, self.args)
        e.defs = self.defs
        self.defs.append(fn(e, *params))

    def fact(self, *fs):
        """add sound facts (lemma instances)"""
        for f in fs:
            if isinstance(f, (list, tuple)):
                self.defs.extend(f)
            else:
                self.defs.append(f)

    def clone(self, **kw):
        c = Ctx(self.pre, self.cur, self.args, self.result, self.exc)
        c.defs = self.defs
        c.mode = self.mode
        c.skolems = self.skolems
        c.ghost = self.ghost
        for k in ('visited', 'index', 'iterset', 'iterlist', 'loop_pre', 'elem', 'outer', 'before'):
            setattr(c, k, getattr(self, k))
        for k, v in kw.items():
            setattr(c, k, v)
        return c


class LoopSpec:
    def __init__(self, inv, hints=None, modifies=None, props=None, variant=None, exit_hints=None):
        self.inv = inv            # list of (label, fn(c) -> Bool)
        self.hints = hints        # fn(c_head, c_end) -> list of facts, used for inv-preserve
        self.modifies = modifies  # optional extra fields havoced (beyond the syntactic ones)
        self.props = props
        self.variant = variant    # fn(c) -> Int term, must decrease along the back edge, >= 0
        self.exit_hints = exit_hints


class Contract:
    def __init__(self, qualname, file=None, kind='function'):
        self.qualname = qualname
        self.file = file
        self.kind = kind                # 'function' | 'env' (assumed: library / job body)
        self.params = []                # [(name, kind, default)]
        self.freevars = []              # closure variables of a nested function: [(name, kind)]
        self.result_kind = 'ref'
        self._requires = []
        self._ensures = []
        self._raises = {}               # class name -> list of (label, fn, props)
        self._modifies = []
        self._raise_modifies = None
        self.loops = {}
        self.pure = None                # fn(c) -> V  (side-effect free accessor)
        self.fieldmap = {}
        self.props = set()
        self.post_hints = None          # fn(c) -> facts used when proving the ensures
        self.ghost_on_return = None     # fn(state, c): ghost update before checking ensures
        self.on_yield = None            # fn(state, value_term, c): ghost update at a yield
        self.rely = None                # fn(c) -> list of facts relating c.before and c.cur
        self.rely_fields = []           # heap fields the environment may change at a suspension
        self.suspends = False           # env contract: performs a rely step
        self.may_cancel = False         # env contract: may raise CancelledError after the rely step
        self.assumed = []               # names of assumptions this contract rests on (evidence)
        self.label_props = {}
        self.cls = qualname.split('.')[0] if '.' in qualname else None
        self.method = qualname.split('.')[-1]
        self.expected_shape = None
        self.generator = False
        self.inline_ok = False
        self.unreachable_raises = []    # exception classes that must never escape
        self.schemas = {}               # name -> (fn(c, *params) -> Bool, mk_params() -> tuple)
        self.ghost_params = {}          # name -> (mk_symbol(), default_at_call_sites)
        self.ghost_pass = {}            # callee qualname -> fn(caller ctx) -> {name: value}
        self.notes = ''

    # ---- builder API
    def param(self, name, kind='ref', default=None):
        self.params.append((name, kind, default))
        return self

    def free(self, name, kind='ref'):
        self.freevars.append((name, kind))
        return self

    def returns(self, kind):
        self.result_kind = kind
        return self

    def requires(self, label, fn):
        self._requires.append((label, fn))
        return self

    def ensures(self, label, fn, props=None):
        self._ensures.append((label, fn))
        if props:
            self.label_props[label] = set(props)
        return self

    def raises(self, cls, label=None, fn=None, props=None):
        self._raises.setdefault(cls, [])
        if fn is not None:
            self._raises[cls].append((label, fn))
            if props:
                self.label_props[label] = set(props)
        return self

    def requires_schema(self, name, fn, mk_params):
        """a precondition universally quantified over `params` (callers prove it for fresh params;
        the body may instantiate it)"""
        self.schemas[name] = (fn, mk_params)
        return self

    def modifies(self, *fields):
        self._modifies.extend(fields)
        return self

    def loop(self, ordinal, inv, hints=None, modifies=None, props=None, variant=None, var_kinds=None,
             est_hints=None, forget=False, clause_hints=None):
        self.loops[ordinal] = LoopSpec(inv, hints, modifies, props, variant)
        self.loops[ordinal].var_kinds = var_kinds
        self.loops[ordinal].est_hints = est_hints
        self.loops[ordinal].forget = forget
        self.loops[ordinal].clause_hints = clause_hints
        return self

    def for_props(self, *ps):
        self.props.update(ps)
        return self


class Registry:
    def __init__(self):
        self.by_name = {}

    def add(self, c):
        self.by_name[c.qualname] = c
        return c

    def get(self, qualname):
        return self.by_name.get(qualname)

    def candidates(self, method):
        return [c for c in self.by_name.values() if c.method == method and c.cls is not None]


REG = Registry()


def contract(qualname, file=None, kind='function'):
    c = Contract(qualname, file, kind)
    REG.add(c)
    return c
