"""
pyvc.driver -- generate the obligations of a set of functions and discharge them.
"""
import importlib
import os
import sys
import time
import traceback

from . import logic as L
from .contracts_api import REG
from .extract import Repo, shape
from .symexec import Exec
from .logic import Unsupported
from . import solve

HERE = os.path.dirname(os.path.dirname(os.path.abspath(__file__)))
CONTRACT_MODULES = ['contracts.c_graph', 'contracts.c_sanitize', 'contracts.c_job', 'contracts.env_asyncio', 'contracts.c_window', 'contracts.c_run', 'contracts.c_corun', 'contracts.c_scheduler', 'contracts.c_build', 'contracts.c_surgery', 'contracts.c_ids', 'contracts.c_init']


_SHAPES = None


def _loop_shapes():
    global _SHAPES
    if _SHAPES is None:
        import json
        p = os.path.join(HERE, 'contracts', 'LOOP_SHAPES.json')
        _SHAPES = json.load(open(p)) if os.path.exists(p) else {}
    return _SHAPES


def load_contracts():
    if HERE not in sys.path:
        sys.path.insert(0, HERE)
    for m in CONTRACT_MODULES + [x for x in os.environ.get('PYVC_EXTRA_MODULES', '').split(',') if x]:
        importlib.import_module(m)
    return REG


class FuncResult:
    def __init__(self, qualname):
        self.qualname = qualname
        self.obligations = []
        self.covers = []
        self.undecided = None       # reason string if generation failed
        self.info = None
        self.gen_s = 0.0


def generate(qualnames, repo=None):
    reg = load_contracts()
    repo = repo or Repo()
    out = []
    for qn in qualnames:
        fr = FuncResult(qn)
        out.append(fr)
        c = reg.get(qn)
        if c is None:
            fr.undecided = 'no contract registered'
            continue
        info = repo.find(c.file, qn)
        if info is None:
            fr.undecided = 'shape: function %s not found in %s' % (qn, c.file)
            continue
        fr.info = info
        t = time.time()
        try:
            if getattr(c, 'syntactic', None) is not None:
                import z3
                from .symexec import Obligation
                for label, ok, why in c.syntactic(info):
                    fr.obligations.append(Obligation('%s/syntactic[%s]#0' % (qn, label), [], z3.BoolVal(bool(ok)),
                                                     qn, label, 'syntactic', c.label_props.get(label, c.props),
                                                     [why] if not ok else [], info.lineno))
                continue
            recorded = _loop_shapes().get(qn)
            if recorded is not None:
                from .extract import loop_headers
                found = loop_headers(info.node)
                if found != recorded:
                    raise Unsupported('shape: the loops of %s are not the ones its contract was written for '
                                      '(recorded %s, found %s)' % (qn, recorded, found))
            ex = Exec(info, c, reg, repo)
            fr.obligations = ex.run()
            fr.covers = ex.covers
            fr.called = sorted(getattr(ex, 'called', set()))
        except Unsupported as exc:
            fr.undecided = 'unsupported: %s' % exc
        except Exception as exc:                      # generator crash: checker error
            fr.undecided = 'crash: %s\n%s' % (exc, traceback.format_exc())
        fr.gen_s = time.time() - t
    return out


def verify(qualnames, repo=None, both=False, verbose=False):
    frs = generate(qualnames, repo)
    allobs = [o for fr in frs for o in fr.obligations]
    t = time.time()
    results = solve.discharge(allobs, both=both)
    covers = [cv for fr in frs for cv in fr.covers]
    cov = solve.check_covers(covers)
    wall = time.time() - t
    byname = {r['name']: r for r in results}
    return frs, byname, cov, wall


def main(argv):
    names = argv[1:]
    frs, byname, cov, wall = verify(names)
    bad = 0
    for fr in frs:
        if fr.undecided:
            print('UNDECIDED', fr.qualname, fr.undecided)
            bad += 1
            continue
        n = len(fr.obligations)
        ok = sum(1 for o in fr.obligations if byname[o.name]['verdict'] == 'unsat')
        print('%-45s obligations=%d discharged=%d gen=%.2fs' % (fr.qualname, n, ok, fr.gen_s))
        for o in fr.obligations:
            r = byname[o.name]
            if r['verdict'] != 'unsat':
                bad += 1
                print('   %-8s %s  z3=%s(%.2fs) cvc5=%s  line=%s' % (r['verdict'], o.name, r['z3'], r['z3_s'], r['cvc5'], o.lineno))
                print('            path:', ' '.join(o.trace[-8:]))
                if r['model']:
                    print('            model:', r['model'].replace('\n', '; ')[:400])
    for cv in cov:
        if cv['result'] == 'unsat':
            print('VACUOUS', cv['name'])
            bad += 1
    slow = sorted(byname.values(), key=lambda r: -(r['z3_s'] + r['cvc5_s']))[:3]
    print('wall %.1fs; slowest: %s' % (wall, [(r['name'], r['z3_s'], r['cvc5_s']) for r in slow]))
    return 1 if bad else 0


if __name__ == '__main__':
    sys.exit(main(sys.argv))
