"""
pyvc.calls -- call expressions: builtins, container methods, and calls replaced by contracts.
"""
import ast
import z3
from . import logic as L
from .logic import V, Unsupported, vref, vbool, vint, vreal, vset, vlist, vstr, VNONE
from .contracts_api import Ctx
from . import wf as WF

L.register_ghost('$ycount', z3.ArraySort(L.Ref, L.I))
L.register_ghost('$ypos', z3.ArraySort(L.Ref, L.I))

# method resolution order of the package's classes (most specific first)
MRO = {
    'Scheduler': ['Scheduler', 'PureScheduler', 'AbstractJob'],
    'Job': ['Job', 'AbstractJob'],
    'PureScheduler': ['PureScheduler'],
    'AbstractJob': ['AbstractJob'],
    'Sequence': ['Sequence'],
    'Window': ['Window'],
    'Queue': ['Queue'],
    'Task': ['Task'],
    'DotStyle': ['DotStyle'],
}


def exact_class(cls, x):
    """x is an instance whose behaviour is that of `cls` (A-SUB for user subclasses)"""
    isa = L.isa
    if cls == 'Scheduler':
        return isa['Scheduler'](x)
    if cls == 'Job':
        return z3.And(isa['Job'](x), z3.Not(isa['Scheduler'](x)))
    if cls == 'PureScheduler':
        return z3.And(isa['PureScheduler'](x), z3.Not(isa['AbstractJob'](x)))
    if cls == 'AbstractJob':
        return z3.And(isa['AbstractJob'](x), z3.Not(isa['Scheduler'](x)), z3.Not(isa['Job'](x)))
    return isa[cls](x)


# base classes each MRO above presupposes; checked against the source on every run (resolve)
BASES = {'Scheduler': ['PureScheduler', 'AbstractJob'], 'Job': ['AbstractJob'], 'PureScheduler': [],
         'AbstractJob': [], 'Sequence': [], 'Window': []}


class Missing:
    """placeholder: the source defines the method in class `owner`, and no contract is attached to that definition"""
    def __init__(self, owner, method):
        self.qualname = '%s.%s' % (owner, method)
        self.owner = owner
        self.generator = False


def resolve(reg, method, repo=None):
    """class -> contract that class's instances use for `method`.

    With the repository at hand the defining class is found the way Python finds it (first class of the MRO
    whose body binds the name in the *current source*): a definition that shadows the one a contract was
    written for is then seen (it has no contract: Missing -> UNDECIDED), not silently bypassed."""
    out = {}
    tab = repo.class_table() if repo is not None else {}
    for cls, mro in MRO.items():
        if cls in tab and cls in BASES:
            have = [b for b in tab[cls][0] if b != 'object']
            if have != BASES[cls]:
                raise Unsupported('shape: class %s has bases %s in the source, the contracts assume %s'
                                  % (cls, have, BASES[cls]))
        owner = None
        for k in mro:
            if k in tab and method in tab[k][1]:
                owner = k
                break
        if owner is not None:
            c = reg.get('%s.%s' % (owner, method))
            if c is None:
                # an overriding body without a contract of its own is covered only by an *assumed* (environment)
                # contract of the method it overrides -- E9: job bodies refine AbstractJob.co_run / co_shutdown.
                # A verified contract further up is NOT inherited: the definition it was proved for is shadowed.
                for k in mro[mro.index(owner) + 1:]:
                    up = reg.get('%s.%s' % (k, method))
                    if up is not None and getattr(up, 'kind', None) == 'env':
                        c = up
                        break
            out[cls] = c if c is not None else Missing(owner, method)
            continue
        for k in mro:
            c = reg.get('%s.%s' % (k, method))
            if c is not None:
                out[cls] = c
                break
    return out


def eval_call(ex, e, st, awaited=False, yield_from=False):
    from .symexec import Raised
    fn = e.func
    kwargs = {k.arg: k.value for k in e.keywords if k.arg is not None}
    stars = [k.value for k in e.keywords if k.arg is None]
    if stars:
        # f(..., **kwds) where kwds is the **kwds parameter of the function under contract (a symbolic record:
        # symexec.run); its entries are handed to the callee's keyword parameters in call_with_args
        if len(stars) != 1 or not isinstance(stars[0], ast.Name) or stars[0].id not in st.env \
                or st.env[stars[0].id].kind != 'kwdict':
            raise Unsupported('**kwargs at call (line %d)' % e.lineno)
        kwargs['**'] = stars[0]

    # ---- calls on names
    if isinstance(fn, ast.Name):
        name = fn.id
        if name in st.env and st.env[name].kind in ('closure', 'asyncfn'):
            return call_value(ex, st.env[name], e, st, awaited)
        return call_builtin(ex, name, e, st, awaited)

    if isinstance(fn, ast.Call):
        res = []
        for st2, f in ex.ev(fn, st):
            if isinstance(f, Raised):
                res.append((st2, f))
            else:
                res.extend(call_value(ex, f, e, st2, awaited))
        return res

    if not isinstance(fn, ast.Attribute):
        raise Unsupported('call of %s' % type(fn).__name__)

    dotted = ex.dotted(fn)
    method = fn.attr
    # module functions with environment contracts: asyncio.wait, time.time ...
    if dotted and dotted.split('.')[0] in ('asyncio', 'time', 'math'):
        c = ex.reg.get(dotted)
        if c is None:
            raise Unsupported('no environment contract for %s (line %d)' % (dotted, e.lineno))
        return call_with_args(ex, c, None, e.args, kwargs, st, awaited, e)
    # Class.method(self, ...)
    if isinstance(fn.value, ast.Name) and fn.value.id in MRO and fn.value.id not in st.env:
        c = ex.reg.get('%s.%s' % (fn.value.id, method))
        if c is None:
            raise Unsupported('no contract for %s.%s (line %d)' % (fn.value.id, method, e.lineno))
        if c.params and c.params[0][0] == 'self':
            return call_with_args(ex, c, None, e.args, kwargs, st, awaited, e, first_is_self=True)
        return call_with_args(ex, c, None, e.args, kwargs, st, awaited, e)      # staticmethod

    # receiver.method(...)
    res = []
    for st2, recv in ex.ev(fn.value, st):
        if isinstance(recv, Raised):
            res.append((st2, recv))
            continue
        if recv.kind == 'set':
            res.extend(set_method(ex, recv, method, e, st2))
        elif recv.kind == 'list':
            res.extend(list_method(ex, recv, method, e, st2))
        elif recv.kind == 'str':
            res.extend(str_method(ex, recv, method, e, kwargs, st2))
        elif recv.kind == 'ref':
            res.extend(dispatch(ex, recv, method, e, kwargs, st2, awaited, yield_from))
        else:
            raise Unsupported('method %s on %s value (line %d)' % (method, recv.kind, e.lineno))
    return res


def call_value(ex, f, e, st, awaited):
    """call of a first-class function value"""
    if f.kind == 'asyncfn':
        cname, captured = f.extra
        c = ex.reg.get(cname)
        if c is None:
            raise Unsupported('no contract for %s' % cname)
        if e.args or e.keywords:
            raise Unsupported('arguments to nested coroutine function')
        coro = V('coro', None, (c, dict(captured)))
        if awaited:
            return run_contract(ex, c, dict(captured), st, e)
        return [(st, coro)]
    raise Unsupported('call of a %s value (line %d)' % (f.kind, e.lineno))


def dispatch(ex, recv, method, e, kwargs, st, awaited, yield_from):
    over = getattr(ex.c, 'dispatch_override', {}).get(method)
    if over is not None:
        # modularity: the caller is verified against the abstract contract of the method (e.g. the body
        # contract of a job), whatever the class of the receiver; overriding methods must refine it
        return call_with_args(ex, ex.reg.get(over), recv, e.args, kwargs, st, awaited, e, yield_from=yield_from)
    table = resolve(ex.reg, method, getattr(ex, 'repo', None))
    if not table:
        raise Unsupported('no contract for method %s (line %d)' % (method, e.lineno))
    if isinstance(e.func.value, ast.Name) and e.func.value.id == 'self' and ex.info.cls in MRO:
        # `self` is an instance of the class being verified or of one of its subclasses
        table = {cls: c for cls, c in table.items() if ex.info.cls in MRO.get(cls, [])} or table
    groups = {}
    for cls, c in table.items():
        groups.setdefault(c.qualname, (c, []))[1].append(cls)
    for qn, (c, classes) in groups.items():
        if isinstance(c, Missing):
            raise Unsupported('method %s as defined in class %s (used by instances of %s) has no contract (line %d)'
                              % (method, c.owner, '/'.join(classes), e.lineno))
    if len(groups) == 1:
        c = next(iter(groups.values()))[0]
        return call_with_args(ex, c, recv, e.args, kwargs, st, awaited, e, yield_from=yield_from)
    res = []
    for qn, (c, classes) in groups.items():
        s2 = st.copy()
        s2.assume(z3.Or([exact_class(k, recv.t) for k in classes]))
        s2.trace.append('L%d:%s=>%s' % (e.lineno, method, qn))
        res.extend(call_with_args(ex, c, recv, e.args, kwargs, s2, awaited, e, yield_from=yield_from))
    return res


def call_with_args(ex, c, recv, args, kwargs, st, awaited, e, first_is_self=False, yield_from=False):
    """evaluate the arguments, bind them to the contract's parameters, run the contract"""
    from .symexec import Raised
    exprs = list(args)
    starred = [i for i, a in enumerate(exprs) if isinstance(a, ast.Starred)]
    plain = [a.value if isinstance(a, ast.Starred) else a for a in exprs]
    kwdict = None
    if '**' in kwargs:
        kwargs = dict(kwargs)
        kwdict = st.env[kwargs.pop('**').id].extra
    kwnames = list(kwargs)
    res = []
    for st2, vals in ex.ev_many(plain + [kwargs[k] for k in kwnames], st):
        if isinstance(vals, Raised):
            res.append((st2, vals))
            continue
        pos = vals[:len(plain)]
        kw = dict(zip(kwnames, vals[len(plain):]))
        params = list(c.params)
        bound = {}
        if recv is not None and params and params[0][0] == 'self':
            bound['self'] = recv
            params = params[1:]
        # else: a staticmethod called through an instance: the receiver is not passed
        # positional
        pi = 0
        for (pname, pkind, pdef) in params:
            if pkind == 'varargs':
                rest_idx = list(range(pi, len(pos)))
                if len(rest_idx) == 1 and rest_idx[0] in starred:
                    v = pos[rest_idx[0]]
                    if v.kind == 'tuple':
                        v = vlist(ex.make_list(v.extra, st2, cls='tuple'))
                    elif v.kind == 'set':
                        # f(*someset): a tuple holding the elements in arbitrary order
                        v = set_to_list(ex, v, st2)
                    bound[pname] = v
                elif any(i in starred for i in rest_idx):
                    raise Unsupported('mixed starred arguments (line %d)' % e.lineno)
                else:
                    bound[pname] = vlist(ex.make_list([pos[i] for i in rest_idx], st2, cls='tuple'))
                pi = len(pos)
                continue
            if pi < len(pos) and not any(q[1] == 'varargs' and q[0] == pname for q in params):
                if pi in starred:
                    raise Unsupported('starred positional argument (line %d)' % e.lineno)
                # keyword-only parameters are declared with kind prefix 'kw:'
                if not str(pkind).startswith('kw:'):
                    bound[pname] = pos[pi]
                    pi += 1
                    continue
            if pname in kw:
                bound[pname] = kw.pop(pname)
            elif kwdict is not None and pname in kwdict:
                # present in **kwds ? its value : the default
                present, val = kwdict[pname]
                k_ = str(pkind).replace('kw:', '')
                dv = const_value(pdef)
                bound[pname] = V(k_, z3.If(present, ex.coerce(val, k_, st2), ex.coerce(dv, k_, st2)))
            else:
                bound[pname] = const_value(pdef)
        if pi < len(pos):
            raise Unsupported('too many positional arguments for %s (line %d)' % (c.qualname, e.lineno))
        if kw:
            raise Unsupported('unexpected keyword %s for %s' % (list(kw), c.qualname))
        argmap = {}
        for (pname, pkind, _d) in c.params:
            k = str(pkind).replace('kw:', '')
            k = 'list' if k == 'varargs' else k
            if k == 'any':
                argmap[pname] = bound[pname]        # python-level value (coroutine object, container)
            else:
                argmap[pname] = ex.coerce(bound[pname], k, st2)
        if c.pure is not None:
            ctx = Ctx(pre=st2, cur=st2, args=argmap)
            v = c.pure(ctx)
            st2.assume(ctx.defs)
            res.append((st2, v))
            continue
        fi = ex.repo.find(c.file, c.qualname) if (c.file and c.kind == 'function') else None
        is_async = fi.is_async if fi is not None else c.suspends or getattr(c, 'is_async', False)
        is_gen = fi.is_generator if fi is not None else c.generator
        if is_async and not awaited:
            res.append((st2, V('coro', None, (c, argmap))))
            continue
        if is_gen and not yield_from:
            res.append((st2, V('gen', None, (c, argmap))))
            continue
        res.extend(run_contract(ex, c, argmap, st2, e, yield_from=yield_from and is_gen))
    return res


def set_to_list(ex, v, st):
    S = st.elems(v.t)
    r = st.alloc_list(cls='tuple')
    arr = L.fresh('lat', L.SeqV)
    n = L.fresh('len', L.I)
    i = L.fresh('i', L.I)
    x = L.fresh('x', L.Ref)
    posf = z3.Function(L.fresh_name('pos'), L.Ref, L.I)
    st.assume(n >= 0, n == L.card(S), *L.card_facts(S))
    st.assume(L.FA([i], z3.Implies(z3.And(0 <= i, i < n),
                                        z3.And(z3.Select(S, z3.Select(arr, i)), posf(z3.Select(arr, i)) == i)),
                        patterns=[z3.Select(arr, i)]))
    st.assume(L.FA([x], z3.Implies(z3.Select(S, x), z3.And(0 <= posf(x), posf(x) < n,
                                                               z3.Select(arr, posf(x)) == x)),
                        patterns=[z3.Select(S, x)]))
    st.heap['$lat'] = z3.Store(st.H('$lat'), r, arr)
    st.heap['$llen'] = z3.Store(st.H('$llen'), r, n)
    return vlist(r)


def const_value(d):
    if d is None:
        return VNONE
    if d is True or d is False:
        return vbool(d)
    if isinstance(d, int):
        return vint(d)
    if isinstance(d, float):
        return vreal(d)
    if isinstance(d, str):
        return vstr(L.str_const(d))
    if isinstance(d, V):
        return d
    raise Unsupported('default value %r' % (d,))


def alive_mono(before, after):
    if after.H('$alive').eq(before.H('$alive')):
        return
    o = L.fresh('o', L.Ref)
    after.assume(L.FA([o], z3.Implies(before.alive(o), after.alive(o)), patterns=[after.alive(o)]))


def run_contract(ex, c, argmap, st, e, yield_from=False):
    """assert requires, (rely step), havoc the frame, assume ensures; fork exceptional outcomes"""
    from .symexec import Raised
    site = '%s@L%d' % (c.qualname, getattr(e, 'lineno', 0))
    if not hasattr(ex, 'called'):
        ex.called = set()
    ex.called.add(c.qualname)       # reported in the evidence: contracts this function was verified against
    before = st.copy()
    ctx0 = Ctx(pre=before, cur=before, args=argmap)
    # ghost arguments: chosen by the caller's contract, else the callee's default
    ghost = {name: dflt for name, (_mk, dflt) in c.ghost_params.items()}
    passer = ex.c.ghost_pass.get(c.qualname)
    if passer is not None:
        ghost.update(passer(ex.mkctx(st)))
    ctx0.ghost = ghost
    for label, fn in c._requires:
        goal = fn(ctx0)
        ex.oblige(st, '%s:%s' % (site, label), goal, 'call-pre', ctx0, lineno=getattr(e, 'lineno', None))
    if c.kind == 'function' and getattr(c, 'syntactic', None) is None and c.pure is None:
        # the callee assumes the heap invariants on entry: they must hold at the call (they may be
        # temporarily broken between two statements of the caller)
        for lab, fm in WF.wf_obligations(st, ex.all_modified(st)):
            ex.oblige(st, '%s:wf:%s' % (site, lab), fm, 'call-pre', ctx0, lineno=getattr(e, 'lineno', None))
        for pname, pkind, _d in c.params:
            if str(pkind).replace('kw:', '') in ('set', 'list', 'varargs') and pname in argmap:
                ex.oblige(st, '%s:argument-%s-is-a-live-object' % (site, pname), st.alive(argmap[pname]), 'call-pre',
                          ctx0, lineno=getattr(e, 'lineno', None))
    # schematic preconditions: proved for fresh parameters (the caller's own schema of the same name,
    # instantiated at those parameters, is available)
    for sname, (sfn, mk) in c.schemas.items():
        params = mk()
        extra = []
        if sname in ex.c.schemas:
            e0 = Ctx(pre=ex.entry, cur=ex.entry, args=ex.args)
            extra.append(ex.c.schemas[sname][0](e0, *params))
            extra += e0.defs
        goal = sfn(ctx0, *params)
        ex.oblige(st, '%s:schema[%s]' % (site, sname), goal, 'call-pre', ctx0, extra=extra,
                  lineno=getattr(e, 'lineno', None))
    # assertions the caller's contract attaches to its calls of this callee (e.g. how a wait is armed)
    for label, fn in getattr(ex.c, 'at_call', {}).get(c.qualname, []):
        cc = ex.mkctx(st)
        cc.callargs = argmap
        ex.oblige(st, '%s:%s' % (site, label), fn(cc), 'call-site', cc, lineno=getattr(e, 'lineno', None),
                  props=ex.c.label_props.get(label))
    # well-founded recursion: the callee's measure is below the caller's measure at entry
    dec_callee = getattr(c, 'decreases', None)
    dec_caller = getattr(ex.c, 'decreases', None)
    if dec_callee is not None and dec_caller is not None:
        m_callee = dec_callee(ctx0)
        m_caller = dec_caller(Ctx(pre=ex.entry, cur=ex.entry, args=ex.args))
        ex.oblige(st, '%s:decreases' % site, z3.And(m_caller >= 0, m_callee < m_caller, m_callee >= 0),
                  'call-pre', ctx0, lineno=getattr(e, 'lineno', None))
    outs = []

    suspends = c.suspends
    if c.kind == 'function' and c.file is not None and getattr(c, 'syntactic', None) is None:
        fi_ = ex.repo.find(c.file, c.qualname)
        if fi_ is not None and fi_.is_async:
            # a coroutine of the package suspends wherever its body does: the caller's rely applies
            suspends = True

    def rely_step(s):
        if not suspends:
            return
        for f in ex.c.rely_fields:
            s.havoc(f)
        if ex.c.rely is not None:
            rc = ex.mkctx(s, before=before)
            s.assume(ex.c.rely(rc))
            s.assume(rc.defs)
        s.assume([fm for _lab, fm in WF.wf_obligations(s, ex.c.rely_fields)])

    # normal outcome
    post = st.copy()
    rely_step(post)
    for f in c._modifies:
        post.havoc(f)
    alive_mono(before, post)
    ctx = Ctx(pre=before, cur=post, args=argmap)
    ctx.mode = 'assume'
    ctx.ghost = ghost
    kind = c.result_kind
    result = None
    result_v = None
    if str(kind).startswith('tuple:'):
        parts = kind.split(':')[1].split(',')
        rs = [L.fresh('res_%s%d' % (c.method, i), L.KIND_SORT[k_]) for i, k_ in enumerate(parts)]
        result = tuple(rs)
        result_v = V('tuple', None, [V(k_, r_) for k_, r_ in zip(parts, rs)])
    elif kind != 'none':
        result = L.fresh('res_' + c.method, L.KIND_SORT[kind])
        result_v = V(kind, result)
    ctx.result = result
    for label, fn in c._ensures:
        post.assume(fn(ctx))
    post.assume(ctx.defs)
    post.assume([fm for _lab, fm in WF.wf_obligations(post, c._modifies)])
    post.trace.append('call %s' % site)
    # vacuity guard: the callee's contract must not make a reachable state unreachable
    ex.covers.append(('%s/cover[after %s]#%d' % (ex.c.qualname, site, len(ex.covers)), list(post.pc), list(st.pc)))
    if yield_from:
        exp = getattr(c, 'gen_export', None)
        if exp is not None:
            # what a consumer loop may know about the yield sequence (symexec.for_generator)
            post.g['$gen-yields'] = exp(ctx)
        outs.append((post, V('yielded')))
    else:
        outs.append((post, VNONE if kind == 'none' else result_v))
    # exceptional outcomes
    for cls, spec in c._raises.items():
        s2 = st.copy()
        rely_step(s2)
        for f in (c._raise_modifies if c._raise_modifies is not None else c._modifies):
            s2.havoc(f)
        alive_mono(before, s2)
        if getattr(c, 'raise_fresh', True):
            exc = s2.alloc('exc', cls if cls in L.CLASSES else 'Exception')
        else:
            # an arbitrary (possibly pre-existing) exception object of that class
            exc = L.fresh('exc', L.Ref)
            s2.assume(s2.alive(exc), L.isa[cls if cls in L.CLASSES else 'Exception'](exc))
        cx = Ctx(pre=before, cur=s2, args=argmap, exc=exc)
        cx.mode = 'assume'
        cx.ghost = ghost
        for label, fn in spec:
            s2.assume(fn(cx))
        s2.assume(cx.defs)
        s2.assume([fm for _lab, fm in WF.wf_obligations(s2, c._modifies)])
        s2.trace.append('call %s raises %s' % (site, cls))
        outs.append((s2, Raised(cls, exc)))
    if c.suspends and c.may_cancel:
        s3 = st.copy()
        rely_step(s3)
        cx = Ctx(pre=before, cur=s3, args=argmap)
        if getattr(c, 'cancel_ensures', None):
            for f in c._modifies:
                s3.havoc(f)
            for label, fn in c.cancel_ensures:
                s3.assume(fn(cx))
            s3.assume(cx.defs)
        exc = s3.alloc('exc', 'CancelledError')
        s3.trace.append('call %s cancelled' % site)
        outs.append((s3, Raised('CancelledError', exc)))
    return outs


# ----------------------------------------------------------------------------- builtins
def call_builtin(ex, name, e, st, awaited):
    from .symexec import Raised, EXC_CLASSES
    res = []
    if name == '$print':
        for st2, vals in ex.ev_many(e.args, st):
            res.append((st2, vals if isinstance(vals, Raised) else VNONE))
        return res
    if name == 'len':
        for st2, v in ex.ev(e.args[0], st):
            if isinstance(v, Raised):
                res.append((st2, v))
            elif v.kind == 'set':
                A = st2.elems(v.t)
                st2.assume(L.card_facts(A))
                res.append((st2, vint(L.card(A))))
            elif v.kind == 'list':
                st2.assume(st2.llen(v.t) >= 0)
                res.append((st2, vint(st2.llen(v.t))))
            elif v.kind == 'ref':
                # len(x) on an object: only PureScheduler defines __len__ in the package (checked in the source:
                # `return len(self.jobs)`); the receiver must be known to be a scheduler
                tab = ex.repo.class_table()
                src = ex.repo.find('purescheduler.py', 'PureScheduler.__len__')
                ok = src is not None and 'len(self.jobs)' in ast.unparse(src.node) and \
                    all('__len__' not in tab.get(k, ([], set()))[1] for k in ('Scheduler', 'AbstractJob', 'Job'))
                if not ok:
                    raise Unsupported('len of an object whose __len__ is not `len(self.jobs)` of PureScheduler')
                ex.oblige(st2, 'len-of-a-scheduler', L.isa['PureScheduler'](v.t), 'call-pre',
                          lineno=getattr(e, 'lineno', None))
                A = st2.elems(st2.f('jobs', v.t))
                st2.assume(L.card_facts(A))
                res.append((st2, vint(L.card(A))))
            else:
                raise Unsupported('len of %s' % v.kind)
        return res
    if name in ('set', 'BestSet'):
        if not e.args:
            return [(st, vset(st.alloc_set()))]
        for st2, v in ex.ev(e.args[0], st):
            if isinstance(v, Raised):
                res.append((st2, v))
            else:
                res.append((st2, vset(st2.alloc_set(ex.as_setvalue(v, st2)))))
        return res
    if name == 'isinstance':
        for st2, vals in ex.ev_many([e.args[0]], st):
            if isinstance(vals, Raised):
                res.append((st2, vals))
                continue
            x = ex.to_ref(vals[0])
            ce = e.args[1]
            names = [n.id for n in (ce.elts if isinstance(ce, ast.Tuple) else [ce])]
            terms = []
            for n in names:
                if n == 'BestSet':
                    n = 'set'
                if n not in L.isa:
                    raise Unsupported('isinstance against %s' % n)
                terms.append(L.isa[n](x))
            res.append((st2, vbool(z3.Or(terms) if len(terms) > 1 else terms[0])))
        return res
    if name == 'hasattr':
        return [(st, vbool(L.fresh('hasattr', L.B)))]
    if name in ('any', 'all', 'next') and e.args and isinstance(e.args[0], ast.GeneratorExp):
        g = e.args[0]
        if len(g.generators) != 1 or g.generators[0].is_async or \
                not isinstance(g.generators[0].target, ast.Name):
            raise Unsupported('%s over a complex generator expression (line %d)' % (name, e.lineno))
        gen = g.generators[0]
        tname = gen.target.id
        if not all(ex.simple(c_) for c_ in gen.ifs) or not ex.simple(g.elt):
            raise Unsupported('%s over a generator expression with effects (line %d)' % (name, e.lineno))
        default = None
        if name == 'next':
            if len(e.args) != 2:
                raise Unsupported('next() without default (line %d)' % e.lineno)
        for st2, vals in ex.ev_many([gen.iter] + ([e.args[1]] if name == 'next' else []), st):
            if isinstance(vals, Raised):
                res.append((st2, vals))
                continue
            S = ex.as_setvalue(vals[0], st2)

            def under_binding(x, what, st2=st2):
                saved = st2.env.get(tname)
                st2.env[tname] = vref(x)
                conds = []
                for c_ in gen.ifs:
                    conds.append(ex.to_bool(ex.ev(c_, st2)[0][1], st2))
                val = ex.ev(g.elt, st2)[0][1] if what == 'elt' else None
                if saved is None:
                    del st2.env[tname]
                else:
                    st2.env[tname] = saved
                return z3.And([z3.Select(S, x)] + conds), val
            x = L.fresh('x', L.Ref)
            if name in ('any', 'all'):
                guard, val = under_binding(x, 'elt')
                tv = ex.to_bool(val, st2)
                if name == 'any':
                    res.append((st2, vbool(z3.Exists([x], z3.And(guard, tv)))))
                else:
                    res.append((st2, vbool(L.FA([x], z3.Implies(guard, tv)))))
            else:
                if not (isinstance(g.elt, ast.Name) and g.elt.id == tname):
                    raise Unsupported('next() over a mapped generator (line %d)' % e.lineno)
                r = L.fresh('next', L.Ref)
                gr, _ = under_binding(r, None)
                gx, _ = under_binding(x, None)
                dflt = ex.to_ref(vals[1])
                st2.assume(z3.Or(gr, z3.And(r == dflt, L.FA([x], z3.Not(gx)))))
                res.append((st2, vref(r)))
        return res
    if name == 'getattr':
        # getattr(obj, name) with a symbolic name: case split over the attributes the contract
        # declares (DESIGN 3.2); any other name is an obligation failure
        fields = getattr(ex.c, 'getattr_fields', None)
        if not fields or len(e.args) != 2:
            raise Unsupported('getattr (line %d)' % e.lineno)
        for st2, vals in ex.ev_many(e.args, st):
            if isinstance(vals, Raised):
                res.append((st2, vals))
                continue
            obj, nm = vals
            if nm.kind != 'str':
                raise Unsupported('getattr with non-string name')
            ex.oblige(st2, 'getattr-name-known', z3.Or([nm.t == L.str_const(f) for f in fields]),
                      'call-pre', lineno=e.lineno)
            for f in fields:
                s3 = st2.copy()
                s3.assume(nm.t == L.str_const(f))
                s3.trace.append('L%d:getattr=%s' % (e.lineno, f))
                res.append((s3, V(L.FIELD_KINDS[f], s3.f(f, ex.to_ref(obj)))))
        return res
    if name in EXC_CLASSES:
        for st2, vals in ex.ev_many(e.args, st):
            if isinstance(vals, Raised):
                res.append((st2, vals))
                continue
            r = st2.alloc('exc', name)
            res.append((st2, V('ref', r, name)))
        return res
    if name in MRO or name in ('Window', 'DotStyle'):
        init = ex.reg.get('%s.__init__' % name)
        if init is None:
            raise Unsupported('no contract for constructor %s (line %d)' % (name, e.lineno))
        kwargs = {k.arg: k.value for k in e.keywords}
        # object under construction: allocated, class known, fields not yet initialised
        r = st.alloc('new_' + name, name)
        outs = call_with_args(ex, init, V('ref', r), e.args, kwargs, st, False, e)
        return [(s2, v if isinstance(v, Raised) else V('ref', r)) for s2, v in outs]
    if name == 'list' and len(e.args) == 1:
        # list(iterable): a fresh list; for an arbitrary iterable its contents are the ghost `aslist` of the
        # argument (whatever iterating it yields), which is what the spec function `leaves` also refers to
        for st2, vals in ex.ev_many(e.args, st):
            if isinstance(vals, Raised):
                res.append((st2, vals))
                continue
            v = vals[0]
            r = st2.alloc_list()
            if v.kind == 'list':
                st2.heap['$llen'] = z3.Store(st2.H('$llen'), r, z3.IntVal(0))
                ex.list_extend(r, v, st2)
            elif v.kind == 'ref':
                st2.heap['$lat'] = z3.Store(st2.H('$lat'), r, L.aslist_items(v.t))
                st2.heap['$llen'] = z3.Store(st2.H('$llen'), r, L.aslist_len(v.t))
                st2.assume(L.aslist_len(v.t) >= 0)
            else:
                raise Unsupported('list() of a %s value' % v.kind)
            res.append((st2, vlist(r)))
        return res
    if name == 'int' and len(e.args) == 1 and not e.keywords:
        # int(x): x itself for an integer; some integer for a real (truncation is not modelled); may not raise
        # for these kinds
        for st2, vals in ex.ev_many(e.args, st):
            if isinstance(vals, Raised):
                res.append((st2, vals))
            elif vals[0].kind == 'int':
                res.append((st2, vals[0]))
            elif vals[0].kind == 'real':
                res.append((st2, vint(L.fresh('int', L.I))))
            else:
                raise Unsupported('int() of a %s value (line %d)' % (vals[0].kind, e.lineno))
        return res
    if name in ('str', 'format'):
        for st2, vals in ex.ev_many(e.args, st):
            if not isinstance(vals, Raised) and name == 'str' and len(vals) == 1 and vals[0].kind == 'str':
                res.append((st2, vals[0]))          # str() of a str is that str
                continue
            res.append((st2, vals if isinstance(vals, Raised) else vstr(L.fresh('str', L.Str))))
        return res
    c = ex.reg.get(name)
    if c is not None:
        kwargs = {k.arg: k.value for k in e.keywords}
        return call_with_args(ex, c, None, e.args, kwargs, st, awaited, e)
    raise Unsupported('call of %s (line %d)' % (name, e.lineno))


def set_method(ex, recv, method, e, st):
    from .symexec import Raised
    res = []
    for st2, vals in ex.ev_many(e.args, st):
        if isinstance(vals, Raised):
            res.append((st2, vals))
            continue
        s = recv.t
        if method == 'add':
            x = ex.to_ref(vals[0])
            st2.set_elems(s, z3.Store(st2.elems(s), x, True))
            res.append((st2, VNONE))
        elif method == 'discard':
            x = ex.to_ref(vals[0])
            st2.set_elems(s, z3.Store(st2.elems(s), x, False))
            res.append((st2, VNONE))
        elif method == 'remove':
            x = ex.to_ref(vals[0])
            bad = st2.copy()
            bad.assume(z3.Not(st2.mem(s, x)))
            bad.trace.append('L%d:KeyError' % e.lineno)
            res.append((bad, Raised('KeyError', bad.alloc('exc', 'KeyError'))))
            st2.assume(st2.mem(s, x))
            st2.set_elems(s, z3.Store(st2.elems(s), x, False))
            res.append((st2, VNONE))
        elif method == 'update':
            old = st2.elems(s)
            other = ex.as_setvalue(vals[0], st2)
            new = L.setdef(st2, lambda x: z3.Or(z3.Select(old, x), z3.Select(other, x)), 'union')
            st2.set_elems(s, new)
            res.append((st2, VNONE))
        elif method == 'copy':
            res.append((st2, vset(st2.alloc_set(st2.elems(s)))))
        else:
            raise Unsupported('set method %s (line %d)' % (method, e.lineno))
    return res


def list_method(ex, recv, method, e, st):
    from .symexec import Raised
    res = []
    for st2, vals in ex.ev_many(e.args, st):
        if isinstance(vals, Raised):
            res.append((st2, vals))
            continue
        l = recv.t
        if method == 'append':
            n = st2.llen(l)
            arr = z3.Select(st2.H('$lat'), l)
            st2.heap['$lat'] = z3.Store(st2.H('$lat'), l, z3.Store(arr, n, ex.to_ref(vals[0])))
            st2.heap['$llen'] = z3.Store(st2.H('$llen'), l, n + 1)
            res.append((st2, VNONE))
        else:
            raise Unsupported('list method %s (line %d)' % (method, e.lineno))
    return res


def str_method(ex, recv, method, e, kwargs, st):
    from .symexec import Raised
    res = []
    if method in ('format', 'join'):
        for st2, vals in ex.ev_many(list(e.args) + list(kwargs.values()), st):
            if isinstance(vals, Raised):
                res.append((st2, vals))
                continue
            r = L.fresh('str', L.Str)
            if method == 'format' and len(vals) == 1 and not kwargs and vals[0].kind == 'int' and recv.kind == 'str':
                r = L.FMT1(recv.t, vals[0].t)
            tmpl = e.func.value.value if (method == 'format' and isinstance(e.func.value, ast.Constant)
                                          and isinstance(e.func.value.value, str)) else None
            if tmpl is not None:
                # the result of a literal template's format() differs from every literal the template
                # cannot produce (its fixed parts must occur, in order)
                import re
                parts = re.split(r'\{[^{}]*\}', tmpl.replace('{{', '\x00').replace('}}', '\x01'))
                rx = re.compile('.*'.join(re.escape(p_.replace('\x00', '{').replace('\x01', '}')) for p_ in parts),
                                re.S)
                for lit, const in list(L._str_consts.items()):
                    if not rx.fullmatch(lit):
                        st2.assume(r != const)
            res.append((st2, vstr(r)))
        return res
    raise Unsupported('str method %s' % method)
