"""
pyvc.symexec -- forward symbolic execution of one function of the repository against its
contract, producing named proof obligations (DESIGN.md 3.1 steps 4-5).

* loops are cut at their invariants (establish / preserve / use);
* calls are replaced by the callee's contract (assert requires, havoc frame, assume ensures);
* an `await` on a library primitive is an environment contract preceded by a rely step and
  followed by an exceptional CancelledError edge;
* every assertion point becomes one obligation  path-condition /\\ facts  =>  goal.
"""
import ast
import z3
from . import logic as L
from .logic import V, State, Unsupported, vref, vbool, vint, vreal, vset, vlist, vstr, VNONE
from .contracts_api import Ctx
from . import wf as WF
from . import calls as _calls      # registers the generator ghost fields

EXC_CLASSES = {'Exception', 'ValueError', 'KeyError', 'TimeoutError', 'IndexError', 'RuntimeError',
               'CancelledError'}


class Obligation:
    def __init__(self, name, assumptions, goal, func, label, kind, props, trace, lineno=None):
        self.name = name
        self.assumptions = assumptions
        self.goal = goal
        self.func = func
        self.label = label
        self.kind = kind
        self.props = set(props or ())
        self.trace = trace
        self.lineno = lineno


class Raised:
    def __init__(self, cls, exc):
        self.cls = cls
        self.exc = exc          # z3 Ref term


class Out:
    """statement outcome"""
    def __init__(self, kind, val=None, cls=None):
        self.kind = kind        # 'ret' | 'raise' | 'break' | 'cont'
        self.val = val
        self.cls = cls


def is_exc_subclass(cls, handler_cls):
    if cls == handler_cls:
        return True
    return cls in L.subclasses_closure(handler_cls)


class Exec:
    MAX_PATHS = 4000

    def __init__(self, info, contract, registry, repo):
        self.info = info
        self.c = contract
        self.reg = registry
        self.repo = repo
        self.obls = []
        self.loop_counter = 0
        self.args = {}
        self.entry = None
        self.path_counter = 0
        self.site_counter = {}
        self.loop_ordinals = {}
        self.loop_stack = []
        self._assign_loop_ordinals(info.node)
        self.covers = []          # (name, assumptions) reachability checks
        self.skolems = {}
        self.ghosts = {name: mk() for name, (mk, _d) in contract.ghost_params.items()}
        self.cur_env = {}
        self.global_facts = []    # instance facts about pure terms (boxing), valid everywhere
        self.notes = []

    # ------------------------------------------------------------------ helpers
    def _assign_loop_ordinals(self, fn):
        n = 0

        def rec(stmts):
            nonlocal n
            for s in stmts:
                if isinstance(s, (ast.FunctionDef, ast.AsyncFunctionDef)):
                    continue
                if isinstance(s, (ast.For, ast.While)):
                    self.loop_ordinals[id(s)] = n
                    n += 1
                    rec(s.body)
                    rec(s.orelse)
                elif isinstance(s, ast.If):
                    rec(s.body)
                    rec(s.orelse)
                elif isinstance(s, ast.Try):
                    rec(s.body)
                    for h in s.handlers:
                        rec(h.body)
                    rec(s.orelse)
                    rec(s.finalbody)
        rec(fn.body)
        self.nloops = n

    def site(self, what):
        k = self.site_counter.get(what, 0)
        self.site_counter[what] = k + 1
        return '%s%d' % (what, k)

    def fieldname(self, attr):
        return self.c.fieldmap.get(attr, attr)

    def oblige(self, st, label, goal, kind, ctx=None, extra=None, props=None, lineno=None):
        assumptions = list(st.pc)
        if ctx is not None:
            assumptions += ctx.defs
        if extra:
            assumptions += extra
        p = props
        if p is None:
            p = self.c.label_props.get(label, self.c.props)
        if z3.is_and(goal) and goal.num_args() > 1:
            # one obligation per conjunct: cheaper for the solvers, and a failure names its part
            for i, g_ in enumerate(goal.children()):
                self.oblige(st, '%s.%d' % (label, i + 1), g_, kind, ctx, extra, p, lineno)
            return
        name = '%s/%s[%s]#%d' % (self.c.qualname, kind, label, len(self.obls))
        assumptions.append(self.global_facts)      # shared list, completed by the end of run()
        self.obls.append(Obligation(name, assumptions, goal, self.c.qualname, label, kind, p,
                                    list(st.trace), lineno))

    def mkctx(self, st, **kw):
        c = Ctx(pre=self.entry, cur=st, args=self.args)
        c.skolems = self.skolems
        c.contract = self.c
        c.ghost = self.ghosts
        for k, v in kw.items():
            setattr(c, k, v)
        if self.loop_stack:
            c.outer = list(self.loop_stack)
        return c

    # ------------------------------------------------------------------ conversions
    def to_ref(self, v):
        k = v.kind
        if k in ('ref', 'set', 'list'):
            return v.t
        if k == 'bool':
            if z3.is_true(v.t):
                return L.TRUE
            if z3.is_false(v.t):
                return L.FALSE
            return z3.If(v.t, L.TRUE, L.FALSE)
        if k == 'int':
            self.global_facts += L.box_num_facts(z3.ToReal(v.t))
            return L.box_num(z3.ToReal(v.t))
        if k == 'real':
            self.global_facts += L.box_num_facts(v.t)
            return L.box_num(v.t)
        if k == 'str':
            self.global_facts += L.box_str_facts(v.t)
            return L.box_str(v.t)
        raise Unsupported('cannot box value of kind %s' % k)

    def to_bool(self, v, st):
        k = v.kind
        if k == 'bool':
            return v.t
        if k == 'ref':
            return L.truthy(v.t)
        if k == 'int':
            return v.t != 0
        if k == 'real':
            return v.t != 0
        if k == 'set':
            A = st.elems(v.t)
            st.assume(L.ne_facts(A))
            return L.nonempty(A)
        if k == 'list':
            return st.llen(v.t) > 0
        if k == 'str':
            return L.str_truthy(v.t)
        if k == 'tuple':
            return z3.BoolVal(len(v.extra) > 0)
        raise Unsupported('truthiness of kind %s' % k)

    def coerce(self, v, kind, st):
        """convert v for storage in a slot of the given kind"""
        if kind == v.kind:
            return v.t
        if kind == 'ref':
            return self.to_ref(v)
        if kind == 'bool':
            return self.to_bool(v, st)
        if kind == 'real':
            if v.kind == 'int':
                return z3.ToReal(v.t)
            if v.kind == 'ref':
                return L.numval(v.t)
        if kind == 'int' and v.kind == 'ref':
            return z3.ToInt(L.numval(v.t))
        if kind == 'str' and v.kind == 'ref':
            # a reference handed to a parameter used as a string: it must be one
            self.oblige(st, 'argument-is-a-string', L.is_str(v.t), 'call-pre')
            return L.strval(v.t)
        if kind == 'set' and v.kind == 'list':
            # A-LISTSET: a list of pairwise distinct elements handed to code that only iterates it,
            # tests it for emptiness or passes it to asyncio.wait is abstracted as the set of its elements
            self.oblige_distinct(v, st)
            return st.alloc_set(self.as_setvalue(v, st), prefix='listset')
        if kind in ('set', 'list') and v.kind in ('ref', 'set', 'list'):
            return v.t
        if kind == 'coro':
            return v
        raise Unsupported('cannot coerce %s to %s' % (v.kind, kind))

    def oblige_distinct(self, v, st):
        i, j = L.fresh('i', L.I), L.fresh('i', L.I)
        n = st.llen(v.t)
        self.oblige(st, 'list-as-set:elements-distinct',
                    L.FA([i, j], z3.Implies(z3.And(0 <= i, i < j, j < n), st.lat(v.t, i) != st.lat(v.t, j))),
                    'call-pre')

    def wrap(self, kind, t):
        return V(kind, t)

    # ------------------------------------------------------------------ function entry
    def run(self):
        c = self.c
        st = State()
        node = self.info.node
        # parameters
        for (name, kind, _default) in c.params:
            kind = str(kind).replace('kw:', '')
            if kind == 'kwargs':
                # **kwds: a record over the keys the contract declares (Contract.kwargs_keys): a presence flag and
                # a value per key; the contract sees them as <name>__has_<key> / <name>__<key>
                rec = {}
                for key, kk in c.kwargs_keys[name]:
                    present = L.fresh('arg_%s_has_%s' % (name, key), L.B)
                    val = L.fresh('arg_%s_%s' % (name, key), L.KIND_SORT[kk])
                    rec[key] = (present, V(kk, val))
                    self.args['%s__has_%s' % (name, key)] = present
                    self.args['%s__%s' % (name, key)] = val
                    if kk in ('ref', 'set', 'list'):
                        st.assume(st.alive(val))
                st.env[name] = V('kwdict', None, rec)
                continue
            k = 'list' if kind == 'varargs' else kind
            t = L.fresh('arg_' + name, L.KIND_SORT[k])
            st.env[name] = V(k, t)
            self.args[name] = t
        for (name, kind) in c.freevars:
            t = L.fresh('free_' + name, L.KIND_SORT[kind])
            st.env[name] = V(kind, t)
            self.args[name] = t
        declared = [a.arg for a in node.args.args + node.args.kwonlyargs]
        if node.args.vararg:
            declared.append(node.args.vararg.arg)
        if node.args.kwarg:
            declared.append(node.args.kwarg.arg)
        names = [p[0] for p in c.params]
        if set(declared) != set(names):
            raise Unsupported('signature mismatch: contract %s vs code %s' % (names, declared))
        # touch all fields so that the entry snapshot shares the same initial arrays
        for f in L.all_field_names():
            st.H(f)
        st.assume(WF.wf_assume(st))
        if getattr(c, 'ghost_init', None):
            c.ghost_init(st)
        for (name, kind, _d) in c.params:
            kind = str(kind).replace('kw:', '')
            if kind == 'kwargs':
                continue
            if kind in ('ref', 'set', 'list', 'varargs'):
                st.assume(st.alive(self.args[name]))
            if kind == 'set':
                st.assume(L.isa['set'](self.args[name]))
        for (name, kind) in c.freevars:
            if kind in ('ref', 'set', 'list'):
                st.assume(st.alive(self.args[name]))
        self.entry = st.copy()
        ctx = Ctx(pre=self.entry, cur=st, args=self.args)
        ctx.ghost = self.ghosts
        for label, fn in c._requires:
            st.assume(fn(ctx))
        st.assume(ctx.defs)
        self.entry.pc = list(st.pc)
        self.covers.append(('%s/cover[requires]' % c.qualname, list(st.pc)))
        if self.info.is_generator:
            st.g['$ynum'] = z3.IntVal(0)
        outs = self.block(node.body, st)
        for st2, out in outs:
            self.finish(st2, out)
        for ob in self.obls:
            flat = []
            for a in ob.assumptions:
                if isinstance(a, list):
                    flat.extend(a)
                else:
                    flat.append(a)
            ob.assumptions = flat
        return self.obls

    def modified_fields_function(self):
        return None

    def finish(self, st, out):
        c = self.c
        if out is None or out.kind == 'ret':
            val = VNONE if out is None or out.val is None else out.val
            if c.ghost_on_return:
                c.ghost_on_return(st, self.mkctx(st))
            ctx = self.mkctx(st)
            ctx.result = self.coerce(val, c.result_kind, st) if c.result_kind != 'none' else None
            hints = self.prove_lemmas(st, c.post_hints(ctx), ctx, 'post') if c.post_hints else []
            st.trace.append('return')
            acc = list(hints)
            for label, fn in c._ensures:
                goal = fn(ctx)
                self.oblige(st, label, goal, 'post', ctx, extra=list(acc))
                acc.append(goal)
            for lab, fm in WF.wf_obligations(st, self.all_modified(st)):
                self.oblige(st, 'wf:' + lab, fm, 'post', ctx, extra=hints)
            self.frame_obligations(st)
        elif out.kind == 'raise' and out.cls == '$any':
            # class known only logically: one case per declared exceptional outcome, rest unreachable
            rest = st.copy()
            for k in c._raises:
                s2 = st.copy()
                s2.assume(L.isa[k](out.val))
                rest.assume(z3.Not(L.isa[k](out.val)))
                self.finish(s2, Out('raise', out.val, k))
            self.oblige(rest, 'no-raise:unknown-class', z3.BoolVal(False), 'post-exc', self.mkctx(rest))
        elif out.kind == 'raise':
            st.trace.append('raise %s' % out.cls)
            spec = None
            for k in c._raises:
                if is_exc_subclass(out.cls, k):
                    spec = c._raises[k]
                    break
            ctx = self.mkctx(st)
            ctx.exc = out.val
            if spec is None:
                hints = self.prove_lemmas(st, c.post_hints(ctx), ctx, 'post-exc') if c.post_hints else []
                self.oblige(st, 'no-raise:' + out.cls, z3.BoolVal(False), 'post-exc', ctx, extra=hints)
            else:
                if c.ghost_on_return:
                    c.ghost_on_return(st, ctx)
                hints = self.prove_lemmas(st, c.post_hints(ctx), ctx, 'post-exc') if c.post_hints else []
                for label, fn in spec:
                    self.oblige(st, label, fn(ctx), 'post-exc', ctx, extra=hints)
                for lab, fm in WF.wf_obligations(st, self.all_modified(st)):
                    self.oblige(st, 'wf:' + lab, fm, 'post-exc', ctx)
                self.frame_obligations(st)
        else:
            raise Unsupported('break/continue outside loop')

    def all_modified(self, st):
        return [f for f in st.heap if f in self.entry.heap and not st.heap[f].eq(self.entry.heap[f])] + \
               [f for f in st.heap if f not in self.entry.heap]

    def frame_obligations(self, st):
        """fields outside the modifies clause must be unchanged (whole array equality)"""
        allowed = set(self.c._modifies) | set(self.c.rely_fields)
        for f in self.all_modified(st):
            if f in allowed:
                continue
            if f == '$alive':
                # allocation is always permitted; nothing is ever deallocated
                o = L.fresh('o', L.Ref)
                self.oblige(st, 'frame:$alive-monotone',
                            L.FA([o], z3.Implies(self.entry.alive(o), st.alive(o)),
                                 patterns=[st.alive(o)]), 'frame')
                continue
            if f in ('$setrole', '$setowner'):
                # allocation metadata of fresh containers: only pre-existing objects are framed
                o = L.fresh('o', L.Ref)
                self.oblige(st, 'frame:%s-of-old-objects' % f,
                            L.FA([o], z3.Implies(self.entry.alive(o), st.f(f, o) == self.entry.f(f, o)),
                                 patterns=[st.f(f, o)]), 'frame')
                continue
            self.oblige(st, 'frame:' + f, st.heap[f] == self.entry.heap[f], 'frame')

    # ------------------------------------------------------------------ statements
    def block(self, stmts, st):
        states = [(st, None)]
        for s in stmts:
            nxt = []
            for (s_, out) in states:
                if out is not None:
                    nxt.append((s_, out))
                else:
                    nxt.extend(self.stmt(s, s_))
            states = nxt
            if len(states) > self.MAX_PATHS:
                raise Unsupported('path explosion (> %d paths)' % self.MAX_PATHS)
        return states

    def stmt(self, s, st):
        m = getattr(self, 'st_' + type(s).__name__, None)
        if m is None:
            raise Unsupported('statement %s at line %d' % (type(s).__name__, s.lineno))
        return m(s, st)

    def st_Pass(self, s, st):
        return [(st, None)]

    def st_Expr(self, s, st):
        v = s.value
        if isinstance(v, ast.Constant):
            return [(st, None)]
        if isinstance(v, ast.Yield):
            return self.do_yield(v, st)
        if isinstance(v, ast.YieldFrom):
            return self.do_yield_from(v, st)
        res = []
        for st2, val in self.ev(v, st):
            if isinstance(val, Raised):
                res.append((st2, Out('raise', val.exc, val.cls)))
            else:
                res.append((st2, None))
        return res

    def st_Return(self, s, st):
        if s.value is None:
            return [(st, Out('ret', None))]
        res = []
        for st2, val in self.ev(s.value, st):
            if isinstance(val, Raised):
                res.append((st2, Out('raise', val.exc, val.cls)))
            else:
                res.append((st2, Out('ret', val)))
        return res

    def st_Raise(self, s, st):
        if s.exc is None:
            cur = st.g.get('$handling')
            if cur is None:
                raise Unsupported('bare raise outside an except block')
            return [(st, Out('raise', cur[1], cur[0]))]
        res = []
        for st2, val in self.ev(s.exc, st):
            if isinstance(val, Raised):
                res.append((st2, Out('raise', val.exc, val.cls)))
                continue
            cls = val.extra if val.kind == 'ref' and val.extra else None
            if cls is None:
                # raising an arbitrary object held in a variable: class unknown
                cls = 'Exception'
                res.append((st2, Out('raise', val.t, '$any')))
            else:
                res.append((st2, Out('raise', val.t, cls)))
        return res

    def st_Break(self, s, st):
        return [(st, Out('break'))]

    def st_Continue(self, s, st):
        return [(st, Out('cont'))]

    def st_FunctionDef(self, s, st):
        st.env[s.name] = V('closure', None, (s, dict(st.env)))
        return [(st, None)]

    st_AsyncFunctionDef = st_FunctionDef

    def st_If(self, s, st):
        res = []
        for st2, val in self.ev(s.test, st):
            if isinstance(val, Raised):
                res.append((st2, Out('raise', val.exc, val.cls)))
                continue
            cond = z3.simplify(self.to_bool(val, st2))
            if z3.is_true(cond):
                res.extend(self.block(s.body, st2))
            elif z3.is_false(cond):
                res.extend(self.block(s.orelse, st2))
            else:
                a = st2.copy()
                a.assume(cond)
                a.trace.append('L%d:then' % s.lineno)
                res.extend(self.block(s.body, a))
                b = st2
                b.assume(z3.Not(cond))
                b.trace.append('L%d:else' % s.lineno)
                res.extend(self.block(s.orelse, b))
        return res

    def st_Assign(self, s, st):
        if len(s.targets) != 1:
            raise Unsupported('multiple assignment targets')
        res = []
        for st2, val in self.ev(s.value, st):
            if isinstance(val, Raised):
                res.append((st2, Out('raise', val.exc, val.cls)))
                continue
            self.assign(s.targets[0], val, st2)
            res.append((st2, None))
        return res

    def assign(self, tgt, val, st):
        if isinstance(tgt, ast.Name):
            st.env[tgt.id] = val
        elif isinstance(tgt, ast.Attribute):
            objs = self.ev(tgt.value, st)
            if len(objs) != 1 or isinstance(objs[0][1], Raised):
                raise Unsupported('complex attribute target')
            obj = objs[0][1]
            f = self.fieldname(tgt.attr)
            if f not in L.FIELD_KINDS:
                raise Unsupported('store to unknown attribute %s' % tgt.attr)
            kind = L.FIELD_KINDS[f]
            newval = self.coerce(val, kind, st)
            guard = getattr(self.c, 'store_guard', None)
            if guard is not None:
                # rely/guarantee: every store of a coroutine must be one its guarantee allows
                self.oblige(st, 'guarantee[store %s]' % f, guard(self.mkctx(st), f, obj.t, newval),
                            'guarantee', lineno=getattr(tgt, 'lineno', None))
            st.setf(f, obj.t, newval)
            if f in L.STORE_GHOST:
                L.STORE_GHOST[f][1](st, obj.t, val)
            if kind == 'set' and f in WF.ROLE:
                st.setf('$setowner', val.t, obj.t)
                st.setf('$setrole', val.t, z3.IntVal(WF.ROLE[f]))
        elif isinstance(tgt, (ast.Tuple, ast.List)):
            if val.kind != 'tuple' or len(val.extra) != len(tgt.elts):
                raise Unsupported('tuple unpacking')
            for t_, v_ in zip(tgt.elts, val.extra):
                self.assign(t_, v_, st)
        else:
            raise Unsupported('assignment target %s' % type(tgt).__name__)

    def st_AugAssign(self, s, st):
        res = []
        # current value of the target
        cur_list = self.ev(s.target if not isinstance(s.target, ast.Name)
                           else ast.Name(id=s.target.id, ctx=ast.Load()), st)
        for st1, cur in cur_list:
            if isinstance(cur, Raised):
                res.append((st1, Out('raise', cur.exc, cur.cls)))
                continue
            for st2, val in self.ev(s.value, st1):
                if isinstance(val, Raised):
                    res.append((st2, Out('raise', val.exc, val.cls)))
                    continue
                op = type(s.op).__name__
                if cur.kind in ('int', 'real') and op in ('Add', 'Sub'):
                    new = self.arith(op, cur, val, st2)
                    self.assign(s.target, new, st2)
                elif cur.kind == 'set' and op == 'BitAnd':
                    other = self.as_setvalue(val, st2)
                    old = st2.elems(cur.t)
                    new = L.setdef(st2, lambda x: z3.And(z3.Select(old, x), z3.Select(other, x)), 'inter')
                    st2.set_elems(cur.t, new)
                    # python rebinds the target to the same object: no heap store needed
                elif cur.kind == 'set' and op == 'BitOr':
                    other = self.as_setvalue(val, st2)
                    old = st2.elems(cur.t)
                    new = L.setdef(st2, lambda x: z3.Or(z3.Select(old, x), z3.Select(other, x)), 'union')
                    st2.set_elems(cur.t, new)
                elif cur.kind == 'list' and op == 'Add':
                    self.list_extend(cur.t, val, st2)
                elif cur.kind == 'str' and op == 'Add':
                    self.assign(s.target, vstr(L.fresh('str', L.Str)), st2)
                else:
                    raise Unsupported('augmented assignment %s on %s' % (op, cur.kind))
                res.append((st2, None))
        return res

    def list_extend(self, lref, val, st):
        """in-place extension of list object lref by the elements of val (a list)"""
        if val.kind != 'list':
            raise Unsupported('list += non-list')
        n0 = st.llen(lref)
        n1 = st.llen(val.t)
        old = z3.Select(st.H('$lat'), lref)
        oth = z3.Select(st.H('$lat'), val.t)
        new = L.fresh('lat', L.SeqV)
        i = L.fresh('i', L.I)
        st.assume(L.FA([i], z3.Select(new, i) ==
                            z3.If(i < n0, z3.Select(old, i), z3.Select(oth, i - n0)),
                            patterns=[z3.Select(new, i)]))
        p_ = L.fresh('i', L.I)
        # the same definition read from the appended list (saves the solver an arithmetic rewrite in an index)
        st.assume(L.FA([p_], z3.Implies(z3.And(0 <= p_, p_ < n1), z3.Select(new, n0 + p_) == z3.Select(oth, p_)),
                       patterns=[z3.Select(oth, p_)]))
        st.heap['$lat'] = z3.Store(st.H('$lat'), lref, new)
        st.heap['$llen'] = z3.Store(st.H('$llen'), lref, n0 + n1)

    def as_setvalue(self, v, st):
        """the set of elements of a container value, as a SetV"""
        if v.kind == 'set':
            return st.elems(v.t)
        if v.kind == 'pset':
            return v.t
        if v.kind == 'list':
            lat = z3.Select(st.H('$lat'), v.t)
            n = st.llen(v.t)
            i = L.fresh('i', L.I)

            def pred(x):
                return z3.Exists([i], z3.And(0 <= i, i < n, z3.Select(lat, i) == x))
            A = L.setdef(st, pred, 'listset')
            j = L.fresh('i', L.I)
            st.assume(L.FA([j], z3.Implies(z3.And(0 <= j, j < n), z3.Select(A, z3.Select(lat, j))),
                                patterns=[z3.Select(lat, j)]))
            return A
        if v.kind == 'tuple':
            elts = [self.to_ref(e) for e in v.extra]
            return L.setdef(st, lambda x: z3.Or([x == e for e in elts]) if elts else z3.BoolVal(False), 'tupset')
        raise Unsupported('container of kind %s' % v.kind)

    def arith(self, op, a, b, st):
        if a.kind == 'int' and b.kind == 'int':
            if op == 'Add':
                return vint(a.t + b.t)
            if op == 'Sub':
                return vint(a.t - b.t)
            if op == 'Mult':
                return vint(a.t * b.t)
            if op == 'FloorDiv':
                # z3's integer division is the floor only for a positive divisor; nothing else is modelled
                if not (z3.is_int_value(b.t) and b.t.as_long() > 0):
                    raise Unsupported('floor division by something other than a positive literal')
                return vint(a.t / b.t)
        ra = self.coerce(a, 'real', st)
        rb = self.coerce(b, 'real', st)
        if op == 'Add':
            return vreal(ra + rb)
        if op == 'Sub':
            return vreal(ra - rb)
        if op == 'Mult':
            return vreal(ra * rb)
        raise Unsupported('arithmetic %s' % op)

    # ------------------------------------------------------------------ try
    def st_Try(self, s, st):
        if s.orelse:
            raise Unsupported('try/else')
        res = []
        for st2, out in self.block(s.body, st):
            if out is not None and out.kind == 'raise':
                handled = False
                for h in s.handlers:
                    hcls = self.handler_classes(h)
                    if out.cls == '$any':
                        raise Unsupported('handler for exception of unknown class')
                    if any(is_exc_subclass(out.cls, hc) for hc in hcls):
                        if h.name:
                            st2.env[h.name] = V('ref', out.val, out.cls)
                        st2.trace.append('L%d:except' % h.lineno)
                        saved = st2.g.get('$handling')
                        st2.g['$handling'] = (out.cls, out.val)
                        for st3, o3 in self.block(h.body, st2):
                            if saved is None:
                                st3.g.pop('$handling', None)
                            else:
                                st3.g['$handling'] = saved
                            res.append((st3, o3))
                        handled = True
                        break
                if not handled:
                    res.append((st2, out))
            else:
                res.append((st2, out))
        if s.finalbody:
            res2 = []
            for st2, out in res:
                for st3, out3 in self.block(s.finalbody, st2):
                    res2.append((st3, out3 if out3 is not None else out))
            res = res2
        return res

    def handler_classes(self, h):
        if h.type is None:
            return ['Exception', 'CancelledError']
        if isinstance(h.type, ast.Name):
            return [self.exc_name(h.type)]
        if isinstance(h.type, ast.Attribute):
            return [self.exc_name(h.type)]
        if isinstance(h.type, ast.Tuple):
            return [self.exc_name(e) for e in h.type.elts]
        raise Unsupported('except clause')

    def exc_name(self, n):
        name = n.id if isinstance(n, ast.Name) else n.attr
        if name == 'BaseException':
            return 'BaseException'
        if name not in EXC_CLASSES:
            raise Unsupported('exception class %s' % name)
        return name

    # ------------------------------------------------------------------ loops
    def loop_spec(self, s):
        k = self.loop_ordinals[id(s)]
        spec = self.c.loops.get(k)
        if spec is None:
            raise Unsupported('loop %d (line %d) has no invariant' % (k, s.lineno))
        return k, spec

    def assigned_in(self, stmts, st=None):
        """(local names, heap fields) syntactically modified by the statements (calls included)"""
        names, fields = set(), set()
        ex = self
        if st is not None:
            self.cur_env = st.env

        class Vis(ast.NodeVisitor):
            def visit_FunctionDef(self, n):
                pass
            visit_AsyncFunctionDef = visit_FunctionDef

            def visit_Name(self, n):
                if isinstance(n.ctx, ast.Store):
                    names.add(n.id)

            def visit_Attribute(self, n):
                if isinstance(n.ctx, ast.Store):
                    f = ex.fieldname(n.attr)
                    fields.add(f)
                    if f in L.STORE_GHOST:
                        fields.add(L.STORE_GHOST[f][0])
                    if L.FIELD_KINDS.get(f) == 'set':
                        fields.update(['$setowner', '$setrole'])
                self.generic_visit(n)

            def visit_AugAssign(self, n):
                op = type(n.op).__name__
                if op in ('BitAnd', 'BitOr'):
                    fields.add('$elems')
                    if isinstance(n.target, ast.Attribute) and \
                            L.FIELD_KINDS.get(ex.fieldname(n.target.attr)) == 'set':
                        # in-place set operator: the attribute is re-bound to the same object
                        self.visit(n.target.value)
                        self.visit(n.value)
                        return
                if op == 'Add':
                    tk = None
                    if isinstance(n.target, ast.Name):
                        v_ = ex.cur_env.get(n.target.id)
                        tk = v_.kind if v_ is not None else None
                    elif isinstance(n.target, ast.Attribute):
                        tk = L.FIELD_KINDS.get(ex.fieldname(n.target.attr))
                    if tk not in ('int', 'real', 'str'):
                        fields.update(['$lat', '$llen'])
                if isinstance(n.target, ast.Name):
                    names.add(n.target.id)
                self.generic_visit(n)

            def visit_Call(self, n):
                fn = n.func
                if isinstance(fn, ast.Attribute):
                    rk = ex.static_kind(fn.value)
                    if rk in ('set', 'list'):
                        # a builtin container method (not the package method of the same name)
                        if fn.attr in ('add', 'update', 'remove', 'discard', 'clear', 'pop'):
                            fields.add('$elems')
                        if fn.attr in ('append', 'extend'):
                            fields.update(['$lat', '$llen'])
                        if fn.attr == 'copy':
                            fields.update(['$alive', '$elems', '$setrole'])
                        self.generic_visit(n)
                        return
                    if fn.attr in ('add', 'update', 'remove', 'discard', 'clear', 'pop'):
                        fields.add('$elems')
                    if fn.attr in ('append', 'extend'):
                        fields.update(['$lat', '$llen'])
                    if fn.attr == 'copy':
                        fields.update(['$alive', '$elems', '$setrole'])
                    for cand in ex.reg.candidates(fn.attr):
                        fields.update(cand._modifies)
                    dotted = ex.dotted(fn)
                    if dotted and ex.reg.get(dotted):
                        fields.update(ex.reg.get(dotted)._modifies)
                        if ex.reg.get(dotted).suspends:
                            fields.update(ex.c.rely_fields)
                elif isinstance(fn, ast.Name):
                    if fn.id in ('set', 'BestSet'):
                        fields.update(['$alive', '$elems', '$setrole'])
                    elif fn.id == 'list':
                        fields.update(['$alive', '$llen', '$lat'])
                    elif fn.id in ('Window', 'DotStyle') or fn.id in EXC_CLASSES:
                        fields.update(['$alive'])
                    c2 = ex.reg.get(fn.id)
                    if c2:
                        fields.update(c2._modifies)
                elif isinstance(fn, ast.Call):
                    # call of a call: window.run_job(job)()
                    pass
                self.generic_visit(n)

            def visit_SetComp(self, n):
                fields.update(['$alive', '$elems', '$setrole'])
                self.generic_visit(n)

            def visit_ListComp(self, n):
                fields.update(['$alive', '$llen', '$lat'])
                self.generic_visit(n)

            def visit_Set(self, n):
                fields.update(['$alive', '$elems', '$setrole'])
                self.generic_visit(n)

            def visit_List(self, n):
                fields.update(['$alive', '$llen', '$lat'])
                self.generic_visit(n)

            def visit_Tuple(self, n):
                self.generic_visit(n)

            def visit_BinOp(self, n):
                if isinstance(n.op, (ast.BitAnd, ast.BitOr, ast.Sub, ast.Add)):
                    fields.update(['$alive'])
                self.generic_visit(n)

            def visit_Yield(self, n):
                fields.update(['$ycount', '$ypos'])
                names.add('$ynum')
                self.generic_visit(n)

            def visit_YieldFrom(self, n):
                fields.update(['$ycount', '$ypos'])
                names.add('$ynum')
                self.generic_visit(n)

            def visit_Await(self, n):
                if not ex.await_never_suspends(n):
                    fields.update(ex.c.rely_fields)
                self.generic_visit(n)

        v = Vis()
        for s_ in stmts:
            v.visit(s_)
        return names, fields

    def static_kind(self, e):
        """kind of an expression when it can be told without evaluating it (a local of known kind, or an
        attribute whose field kind is declared)"""
        if isinstance(e, ast.Name):
            v = self.cur_env.get(e.id)
            return v.kind if v is not None else None
        if isinstance(e, ast.Attribute):
            return L.FIELD_KINDS.get(self.fieldname(e.attr))
        return None

    def await_never_suspends(self, n):
        """an await on a coroutine of the package whose contract was checked to hold no suspension point"""
        v = n.value
        if isinstance(v, ast.Call) and isinstance(v.func, ast.Attribute):
            cands = self.reg.candidates(v.func.attr)
            return bool(cands) and all(getattr(cc, 'syntactic', None) is not None and not cc.suspends
                                       for cc in cands)
        return False

    def dotted(self, n):
        parts = []
        while isinstance(n, ast.Attribute):
            parts.append(n.attr)
            n = n.value
        if isinstance(n, ast.Name):
            parts.append(n.id)
            return '.'.join(reversed(parts))
        return None

    def havoc_for_loop(self, st, body, spec):
        names, fields = self.assigned_in(body, st)
        if spec.modifies:
            fields.update(spec.modifies)
        for n in names:
            if n == '$ynum':
                st.g['$ynum'] = L.fresh('ynum', L.I)
                continue
            if n in st.env:
                v = st.env[n]
                if v.kind in L.KIND_SORT:
                    st.env[n] = V(v.kind, L.fresh('v_' + n, L.KIND_SORT[v.kind]))
                elif v.kind == 'tuple':
                    raise Unsupported('loop assigns tuple variable %s' % n)
            # names first assigned inside the loop are not live at the head
        old_alive = st.H('$alive')
        for f in fields:
            if f in L.FIELD_KINDS or f in L.BUILTIN_FIELDS or f in L.GHOST_FIELDS:
                st.havoc(f)
        if '$alive' in fields:
            # meta-invariant of the semantics: nothing is ever deallocated (every primitive step
            # and every contract call is monotone on $alive)
            o = L.fresh('o', L.Ref)
            st.assume(L.FA([o], z3.Implies(z3.Select(old_alive, o), st.alive(o)),
                           patterns=[st.alive(o)]))
        return names, fields

    def check_inv(self, st, spec, k, kind, ctxkw, head_ctx=None, fields=None, lineno=None):
        ctx = self.mkctx(st, **ctxkw)
        hints = []
        if kind == 'inv-establish' and getattr(spec, 'est_hints', None) is not None:
            hints = self.prove_lemmas(st, list(spec.est_hints(ctx)), ctx, 'loop%d-establish' % k, lineno)
        if kind == 'inv-preserve' and spec.hints is not None:
            hints = self.prove_lemmas(st, list(spec.hints(head_ctx, ctx)) + list(head_ctx.defs), ctx,
                                      'loop%d' % k, lineno)
        acc = list(hints)
        for label, fn in spec.inv:
            goal = fn(ctx)
            # sequential conjunction: clause k is proved with clauses 1..k-1 (each proved) as hypotheses
            ch = (getattr(spec, 'clause_hints', None) or {}).get(label)
            if ch is not None and kind == 'inv-preserve':
                acc += self.prove_lemmas(st, list(ch(head_ctx, ctx)), ctx, 'loop%d:%s' % (k, label), lineno,
                                         base=acc)
            self.oblige(st, '%s/loop%d' % (label, k), goal, kind, ctx, extra=list(acc),
                        props=spec.props or self.c.label_props.get(label), lineno=lineno)
            acc.append(goal)
        if fields is not None:
            for lab, fm in WF.wf_obligations(st, fields):
                self.oblige(st, 'wf:%s/loop%d' % (lab, k), fm, kind, ctx, extra=hints, lineno=lineno)
            for lab, fm in self.outer_iter_stable(st, fields):
                self.oblige(st, '%s/loop%d' % (lab, k), fm, kind, ctx, extra=hints, lineno=lineno)

    def prove_lemmas(self, st, hints, ctx, where, lineno=None, base=None):
        """Lemma items among the hints become obligations of their own (proved with the hints that
        precede them) and are then usable as hypotheses"""
        out = []
        for h in hints:
            if isinstance(h, L.Lemma):
                self.oblige(st, 'lemma:%s/%s' % (h.name, where), h.formula, 'lemma', ctx,
                            extra=list(base or []) + list(out), lineno=lineno)
                out.append(h.formula)
            else:
                out.append(h)
        return out

    def assume_inv(self, st, spec, ctxkw, fields):
        ctx = self.mkctx(st, **ctxkw)
        for label, fn in spec.inv:
            st.assume(fn(ctx))
        st.assume(ctx.defs)
        # wf is part of every invariant
        for lab, fm in WF.wf_obligations(st, fields):
            st.assume(fm)
        # so is the stability of the containers iterated by the enclosing loops
        for lab, fm in self.outer_iter_stable(st, fields):
            st.assume(fm)
        return ctx

    def outer_iter_stable(self, st, fields):
        out = []
        for ent in self.loop_stack:
            if ent['kind'] == 'set' and '$elems' in fields:
                out.append(('outer-iter-stable[loop%d]' % ent['k'], st.elems(ent['sref']) == ent['iterset']))
            if ent['kind'] == 'list' and ('$lat' in fields or '$llen' in fields):
                out.append(('outer-iter-stable[loop%d]' % ent['k'],
                            z3.And(st.llen(ent['iterlist']) == ent['n'],
                                   z3.Select(st.H('$lat'), ent['iterlist']) == ent['lat'])))
        return out

    def coerce_loop_vars(self, st, spec):
        for name, kind in (getattr(spec, 'var_kinds', None) or {}).items():
            if name in st.env and st.env[name].kind != kind:
                st.env[name] = V(kind, self.coerce(st.env[name], kind, st))

    def st_While(self, s, st):
        k, spec = self.loop_spec(s)
        if s.orelse:
            raise Unsupported('while/else')
        self.coerce_loop_vars(st, spec)
        loop_pre = st.copy()
        st.g['$loop%d_pre' % k] = loop_pre
        kw = dict(loop_pre=loop_pre)
        names, fields = self.assigned_in(s.body, st)
        if spec.modifies:
            fields = fields | set(spec.modifies)
        self.check_inv(st, spec, k, 'inv-establish', kw, fields=fields, lineno=s.lineno)
        h = st.copy()
        self.havoc_for_loop(h, s.body, spec)
        if getattr(spec, 'forget', False):
            # sound weakening: at the head only the entry assumptions and the invariant are kept
            # (facts about the intermediate states of the prologue are dropped)
            h.pc = list(self.entry.pc)
            kw = dict(loop_pre=None)
            o = L.fresh('o', L.Ref)
            h.assume(L.FA([o], z3.Implies(self.entry.alive(o), h.alive(o)), patterns=[h.alive(o)]))
        head_ctx = self.assume_inv(h, spec, kw, fields)
        h.trace.append('L%d:while-head' % s.lineno)
        self.covers.append(('%s/cover[loop%d-head]' % (self.c.qualname, k), list(h.pc)))
        res = []
        for st2, cv in self.ev(s.test, h):
            if isinstance(cv, Raised):
                res.append((st2, Out('raise', cv.exc, cv.cls)))
                continue
            cond = z3.simplify(self.to_bool(cv, st2))
            if not z3.is_true(cond):
                ex = st2.copy()
                ex.assume(z3.Not(cond))
                ex.trace.append('L%d:while-exit' % s.lineno)
                res.append((ex, None))
            if z3.is_false(cond):
                continue
            it = st2.copy()
            it.assume(cond)
            self.loop_stack.append(dict(kind='while', k=k))
            body_outs = self.block(s.body, it)
            self.loop_stack.pop()
            for st3, out in body_outs:
                if out is None or out.kind == 'cont':
                    self.check_inv(st3, spec, k, 'inv-preserve', kw, head_ctx, fields, lineno=s.lineno)
                    if spec.variant is not None:
                        endc = self.mkctx(st3, **kw)
                        v0 = spec.variant(head_ctx)
                        v1 = spec.variant(endc)
                        hints = list(spec.hints(head_ctx, endc)) if spec.hints else []
                        self.oblige(st3, 'variant/loop%d' % k, z3.And(v0 >= 0, v1 < v0), 'variant',
                                    endc, extra=hints + head_ctx.defs, lineno=s.lineno)
                elif out.kind == 'break':
                    st3.trace.append('L%d:break' % s.lineno)
                    res.append((st3, None))
                else:
                    res.append((st3, out))
        return res

    def st_For(self, s, st):
        if s.orelse:
            raise Unsupported('for/else')
        # generator consumers and special iterables
        special = self.for_special(s, st)
        if special is not None:
            return special
        res = []
        for st1, itv in self.ev(s.iter, st):
            if isinstance(itv, Raised):
                res.append((st1, Out('raise', itv.exc, itv.cls)))
                continue
            if itv.kind == 'set':
                res.extend(self.for_set(s, st1, itv))
            elif itv.kind == 'list':
                res.extend(self.for_list(s, st1, itv))
            elif itv.kind == 'tuple':
                res.extend(self.for_tuple(s, st1, itv))
            elif itv.kind == 'ref':
                # container of a class known only logically: sequence-like or set-like
                a = st1.copy()
                a.assume(z3.Or(L.isa['list'](itv.t), L.isa['tuple'](itv.t)))
                a.trace.append('L%d:iter-as-sequence' % s.lineno)
                res.extend(self.for_list(s, a, V('list', itv.t)))
                b = st1.copy()
                b.assume(L.isa['set'](itv.t))
                b.trace.append('L%d:iter-as-set' % s.lineno)
                res.extend(self.for_set(s, b, V('set', itv.t)))
                rest = st1
                rest.assume(z3.Not(z3.Or(L.isa['list'](itv.t), L.isa['tuple'](itv.t), L.isa['set'](itv.t))))
                self.oblige(rest, 'iterable-is-a-list-tuple-or-set', z3.BoolVal(False), 'call-pre', lineno=s.lineno)
            else:
                raise Unsupported('for over value of kind %s (line %d)' % (itv.kind, s.lineno))
        return res

    def for_zip_pairs(self, s, st):
        """for a, b in zip(X, X[1:]):  consecutive pairs of a list, in order"""
        it = s.iter
        if not (isinstance(it, ast.Call) and isinstance(it.func, ast.Name) and it.func.id == 'zip'
                and len(it.args) == 2 and isinstance(it.args[1], ast.Subscript)
                and isinstance(it.args[1].slice, ast.Slice)
                and ast.dump(it.args[1].value) == ast.dump(it.args[0])
                and isinstance(it.args[1].slice.lower, ast.Constant) and it.args[1].slice.lower.value == 1
                and it.args[1].slice.upper is None and it.args[1].slice.step is None
                and isinstance(s.target, ast.Tuple) and len(s.target.elts) == 2):
            return None
        res = []
        for st1, lv in self.ev(it.args[0], st):
            if isinstance(lv, Raised):
                res.append((st1, Out('raise', lv.exc, lv.cls)))
                continue
            if lv.kind != 'list':
                raise Unsupported('zip over a %s' % lv.kind)
            k, spec = self.loop_spec(s)
            lref = lv.t
            n = st1.llen(lref)
            lat = z3.Select(st1.H('$lat'), lref)
            st1.assume(n >= 0)
            npairs = z3.If(n >= 1, n - 1, 0)
            loop_pre = st1.copy()
            names, fields = self.assigned_in(s.body, st1)
            kw0 = dict(loop_pre=loop_pre, iterlist=lref, index=z3.IntVal(0))
            self.check_inv(st1, spec, k, 'inv-establish', kw0, fields=fields, lineno=s.lineno)
            h = st1.copy()
            self.havoc_for_loop(h, s.body, spec)
            idx = L.fresh('idx', L.I)
            h.assume(0 <= idx, idx <= npairs)
            kw = dict(loop_pre=loop_pre, iterlist=lref, index=idx)
            head_ctx = self.assume_inv(h, spec, kw, fields)
            h.assume(h.llen(lref) == n, z3.Select(h.H('$lat'), lref) == lat)
            ex = h.copy()
            ex.assume(idx == npairs)
            res.append((ex, None))
            itst = h.copy()
            itst.assume(idx < npairs)
            a, b = z3.Select(lat, idx), z3.Select(lat, idx + 1)
            self.assign(s.target.elts[0], vref(a), itst)
            self.assign(s.target.elts[1], vref(b), itst)
            self.loop_stack.append(dict(kind='list', k=k, index=idx, iterlist=lref, elem=a, lat=lat, n=n))
            outs = self.block(s.body, itst)
            self.loop_stack.pop()
            for st3, out in outs:
                if out is None or out.kind == 'cont':
                    kw2 = dict(loop_pre=loop_pre, iterlist=lref, index=idx + 1, elem=a)
                    head_ctx.elem = a
                    self.check_inv(st3, spec, k, 'inv-preserve', kw2, head_ctx, fields, lineno=s.lineno)
                    self.oblige(st3, 'iter-stable/loop%d' % k,
                                z3.And(st3.llen(lref) == n, z3.Select(st3.H('$lat'), lref) == lat),
                                'inv-preserve', lineno=s.lineno)
                elif out.kind == 'break':
                    res.append((st3, None))
                else:
                    res.append((st3, out))
        return res

    def for_special(self, s, st):
        """for-loops over a generator of the package, or over zip(X, X[1:])"""
        zp = self.for_zip_pairs(s, st)
        if zp is not None:
            return zp
        it = s.iter
        if not (isinstance(it, ast.Call) and isinstance(it.func, ast.Attribute)):
            return None
        from .calls import resolve
        table = resolve(self.reg, it.func.attr, getattr(self, 'repo', None))
        if not table or not any(c_.generator for c_ in table.values()):
            return None
        trivial = all(isinstance(b, ast.Pass) for b in s.body)
        if trivial:
            # `for _ in gen(): pass` exhausts the generator: its contract is the whole effect
            res = []
            for st2, v in self.ev(it, st, yield_from=True):
                if isinstance(v, Raised):
                    res.append((st2, Out('raise', v.exc, v.cls)))
                else:
                    res.append((st2, None))
            return res
        return self.for_generator(s, st)

    def for_generator(self, s, st):
        """`for x in gen(...): body` for a generator of the package under contract.

        Eager model: the generator's contract is applied as a whole, then the body is run once per yielded
        element in yield order, as a set loop whose `visited` is exactly the set of elements yielded before
        the current one.  What makes this equal to the real (lazy, interleaved) execution is checked or
        over-approximated here:
          * the body must leave the generator's read footprint unchanged (obligation generator-undisturbed);
          * the fields the generator writes are havoced at the loop head on the yielded objects, so the
            body never relies on the marks being in their final state, and an abandoned generator
            (break, return or raise out of the body) needs no special case;
          * if the generator raises, the body may have run for a prefix: its assigned names/fields are havoced.
        The contract of the generator exports the yield set, the position function and these two hooks
        (Contract.gen_export)."""
        k, spec = self.loop_spec(s)
        res = []
        for st2, v in self.ev(s.iter, st, yield_from=True):
            if isinstance(v, Raised):
                self.havoc_for_loop(st2, s.body, spec)
                res.append((st2, Out('raise', v.exc, v.cls)))
                continue
            info = st2.g.get('$gen-yields')
            if info is None:
                raise Unsupported('the generator contract exports no yield sequence (line %d)' % s.lineno)
            S, pos = info['set'], info['pos']
            loop_pre = st2.copy()
            st2.g['$loop%d_pre' % k] = loop_pre
            st2.g['$loop%d_iterset' % k] = S
            names, fields = self.assigned_in(s.body, st2)
            if spec.modifies:
                fields = fields | set(spec.modifies)
            info['forget'](st2)
            kw0 = dict(loop_pre=loop_pre, iterset=S, visited=L.EMPTY)
            self.check_inv(st2, spec, k, 'inv-establish', kw0, fields=fields, lineno=s.lineno)
            h = st2.copy()
            self.havoc_for_loop(h, s.body, spec)
            info['forget'](h)
            Vis = L.fresh('visited', L.SetV)
            h.assume(L.subset(Vis, S))
            kw = dict(loop_pre=loop_pre, iterset=S, visited=Vis)
            head_ctx = self.assume_inv(h, spec, kw, fields)
            h.assume(info['stable'](loop_pre, h, marks=False))
            ex = h.copy()
            ex.assume(L.seteq(Vis, S), Vis == S)
            ex.trace.append('L%d:for-exit' % s.lineno)
            res.append((ex, None))
            it = h.copy()
            x = L.fresh('it_' + (s.target.id if isinstance(s.target, ast.Name) else 'x'), L.Ref)
            j = L.fresh('j', L.Ref)
            it.assume(z3.Select(S, x), z3.Not(z3.Select(Vis, x)))
            # yield order: what was visited before x is exactly what the generator yielded before x
            it.assume(L.FA([j], z3.Select(Vis, j) == z3.And(z3.Select(S, j), pos(j) < pos(x)),
                           patterns=[z3.Select(Vis, j)]))
            it.trace.append('L%d:for-iter' % s.lineno)
            self.covers.append(('%s/cover[loop%d-body]' % (self.c.qualname, k), list(it.pc)))
            self.assign(s.target, vref(x), it)
            before_body = it.copy()
            self.loop_stack.append(dict(kind='set', k=k, visited=Vis, iterset=S, elem=x, sref=None))
            body_outs = self.block(s.body, it)
            self.loop_stack.pop()
            for st3, out in body_outs:
                if out is None or out.kind == 'cont':
                    kw2 = dict(loop_pre=loop_pre, iterset=S, visited=z3.Store(Vis, x, True), elem=x)
                    head_ctx.elem = x
                    self.check_inv(st3, spec, k, 'inv-preserve', kw2, head_ctx, fields, lineno=s.lineno)
                    self.oblige(st3, 'generator-undisturbed/loop%d' % k, info['stable'](before_body, st3),
                                'inv-preserve', lineno=s.lineno)
                elif out.kind == 'break':
                    res.append((st3, None))
                else:
                    res.append((st3, out))
        return res

    def for_tuple(self, s, st, itv):
        """python-level tuple of statically known length: unroll"""
        states = [(st, None)]
        for elt in itv.extra:
            nxt = []
            for st1, out in states:
                if out is not None:
                    nxt.append((st1, out))
                    continue
                self.assign(s.target, elt, st1)
                for st2, o2 in self.block(s.body, st1):
                    if o2 is not None and o2.kind == 'cont':
                        o2 = None
                    nxt.append((st2, o2))
            states = nxt
        return [(a, None if (b is not None and b.kind == 'break') else b) for a, b in states]

    def for_set(self, s, st, itv):
        k, spec = self.loop_spec(s)
        sref = itv.t
        S = st.elems(sref)
        loop_pre = st.copy()
        st.g['$loop%d_pre' % k] = loop_pre
        st.g['$loop%d_iterset' % k] = S
        names, fields = self.assigned_in(s.body, st)
        if spec.modifies:
            fields = fields | set(spec.modifies)
        kw0 = dict(loop_pre=loop_pre, iterset=S, visited=L.EMPTY)
        self.check_inv(st, spec, k, 'inv-establish', kw0, fields=fields, lineno=s.lineno)
        h = st.copy()
        self.havoc_for_loop(h, s.body, spec)
        Vis = L.fresh('visited', L.SetV)
        h.assume(L.subset(Vis, S))
        kw = dict(loop_pre=loop_pre, iterset=S, visited=Vis)
        head_ctx = self.assume_inv(h, spec, kw, fields)
        # the iterated set itself is not mutated during iteration (else RuntimeError)
        h.assume(h.elems(sref) == S)
        res = []
        # exit
        ex = h.copy()
        ex.assume(L.seteq(Vis, S), Vis == S)
        ex.trace.append('L%d:for-exit' % s.lineno)
        res.append((ex, None))
        # one iteration
        it = h.copy()
        x = L.fresh('it_' + (s.target.id if isinstance(s.target, ast.Name) else 'x'), L.Ref)
        it.assume(z3.Select(S, x), z3.Not(z3.Select(Vis, x)))
        it.trace.append('L%d:for-iter' % s.lineno)
        self.covers.append(('%s/cover[loop%d-body]' % (self.c.qualname, k), list(it.pc)))
        self.assign(s.target, vref(x), it)
        self.loop_stack.append(dict(kind='set', k=k, visited=Vis, iterset=S, elem=x, sref=sref))
        body_outs = self.block(s.body, it)
        self.loop_stack.pop()
        for st3, out in body_outs:
            if out is None or out.kind == 'cont':
                kw2 = dict(loop_pre=loop_pre, iterset=S, visited=z3.Store(Vis, x, True), elem=x)
                head_ctx.elem = x
                self.check_inv(st3, spec, k, 'inv-preserve', kw2, head_ctx, fields, lineno=s.lineno)
                self.oblige(st3, 'iter-stable/loop%d' % k, st3.elems(sref) == S, 'inv-preserve',
                            lineno=s.lineno)
            elif out.kind == 'break':
                res.append((st3, None))
            else:
                res.append((st3, out))
        return res

    def for_list(self, s, st, itv):
        k, spec = self.loop_spec(s)
        lref = itv.t
        n = st.llen(lref)
        lat = z3.Select(st.H('$lat'), lref)
        loop_pre = st.copy()
        st.g['$loop%d_pre' % k] = loop_pre
        names, fields = self.assigned_in(s.body, st)
        if spec.modifies:
            fields = fields | set(spec.modifies)
        st.assume(n >= 0)
        kw0 = dict(loop_pre=loop_pre, iterlist=lref, index=z3.IntVal(0))
        self.check_inv(st, spec, k, 'inv-establish', kw0, fields=fields, lineno=s.lineno)
        h = st.copy()
        self.havoc_for_loop(h, s.body, spec)
        idx = L.fresh('idx', L.I)
        h.assume(0 <= idx, idx <= n)
        kw = dict(loop_pre=loop_pre, iterlist=lref, index=idx)
        head_ctx = self.assume_inv(h, spec, kw, fields)
        h.assume(h.llen(lref) == n, z3.Select(h.H('$lat'), lref) == lat)
        res = []
        ex = h.copy()
        ex.assume(idx == n)
        ex.trace.append('L%d:for-exit' % s.lineno)
        res.append((ex, None))
        it = h.copy()
        it.assume(idx < n)
        x = z3.Select(lat, idx)
        it.trace.append('L%d:for-iter' % s.lineno)
        self.covers.append(('%s/cover[loop%d-body]' % (self.c.qualname, k), list(it.pc)))
        self.assign(s.target, vref(x), it)
        self.loop_stack.append(dict(kind='list', k=k, index=idx, iterlist=lref, elem=x, lat=lat, n=n))
        body_outs = self.block(s.body, it)
        self.loop_stack.pop()
        for st3, out in body_outs:
            if out is None or out.kind == 'cont':
                kw2 = dict(loop_pre=loop_pre, iterlist=lref, index=idx + 1, elem=x)
                head_ctx.elem = x
                self.check_inv(st3, spec, k, 'inv-preserve', kw2, head_ctx, fields, lineno=s.lineno)
                self.oblige(st3, 'iter-stable/loop%d' % k,
                            z3.And(st3.llen(lref) == n, z3.Select(st3.H('$lat'), lref) == lat),
                            'inv-preserve', lineno=s.lineno)
            elif out.kind == 'break':
                res.append((st3, None))
            else:
                res.append((st3, out))
        return res

    # ------------------------------------------------------------------ generators
    def do_yield(self, y, st):
        res = []
        vals = self.ev(y.value, st) if y.value is not None else [(st, VNONE)]
        for st2, val in vals:
            if isinstance(val, Raised):
                res.append((st2, Out('raise', val.exc, val.cls)))
                continue
            t = self.to_ref(val)
            yc = st2.H('$ycount')
            st2.heap['$ycount'] = z3.Store(yc, t, z3.Select(yc, t) + 1)
            st2.heap['$ypos'] = z3.Store(st2.H('$ypos'), t, st2.g['$ynum'])
            st2.g['$ynum'] = st2.g['$ynum'] + 1
            if self.c.on_yield:
                self.c.on_yield(st2, t, self.mkctx(st2))
            st2.trace.append('L%d:yield' % y.lineno)
            res.append((st2, None))
        return res

    def do_yield_from(self, y, st):
        res = []
        for st2, val in self.ev(y.value, st, yield_from=True):
            if isinstance(val, Raised):
                res.append((st2, Out('raise', val.exc, val.cls)))
                continue
            if val.kind == 'set' or val.kind == 'pset':
                S = self.as_setvalue(val, st2)
                old = st2.H('$ycount')
                new = L.fresh('H_g_ycount', L.field_sort('$ycount'))
                x = L.fresh('x', L.Ref)
                st2.assume(L.FA([x], z3.Select(new, x) ==
                                     z3.Select(old, x) + z3.If(z3.Select(S, x), 1, 0),
                                     patterns=[z3.Select(new, x)]))
                st2.heap['$ycount'] = new
                st2.havoc('$ypos')
                st2.g['$ynum'] = L.fresh('ynum', L.I)
            elif val.kind == 'yielded':
                pass    # the callee generator's contract already updated $ycount
            else:
                raise Unsupported('yield from value of kind %s' % val.kind)
            res.append((st2, None))
        return res

    # ------------------------------------------------------------------ expressions
    def ev(self, e, st, **kw):
        m = getattr(self, 'ev_' + type(e).__name__, None)
        if m is None:
            raise Unsupported('expression %s at line %d' % (type(e).__name__, getattr(e, 'lineno', 0)))
        if kw:
            return m(e, st, **kw)
        return m(e, st)

    def ev_many(self, exprs, st):
        """evaluate left to right; returns list of (state, [values]) or (state, Raised)"""
        acc = [(st, [])]
        for e in exprs:
            nxt = []
            for s_, vals in acc:
                if isinstance(vals, Raised):
                    nxt.append((s_, vals))
                    continue
                for s2, v in self.ev(e, s_):
                    if isinstance(v, Raised):
                        nxt.append((s2, v))
                    else:
                        nxt.append((s2, vals + [v]))
            acc = nxt
        return acc

    def ev_Constant(self, e, st):
        v = e.value
        if v is None:
            return [(st, VNONE)]
        if v is True or v is False:
            return [(st, vbool(v))]
        if isinstance(v, int):
            return [(st, vint(v))]
        if isinstance(v, float):
            return [(st, vreal(v))]
        if isinstance(v, str):
            return [(st, vstr(L.str_const(v)))]
        raise Unsupported('constant %r' % (v,))

    def ev_Name(self, e, st):
        n = e.id
        if n in st.env:
            return [(st, st.env[n])]
        if n in L.CLASSES or n in ('BestSet', 'str', 'int', 'bool'):
            return [(st, V('cls', None, n))]
        if n in ('asyncio', 'time', 'math'):
            return [(st, V('module', None, n))]
        raise Unsupported('unbound name %s (line %d)' % (n, e.lineno))

    def ev_JoinedStr(self, e, st):
        # f-string: opaque string; embedded expressions are evaluated (they may raise)
        subs = [v.value for v in e.values if isinstance(v, ast.FormattedValue)]
        res = []
        for st2, vals in self.ev_many(subs, st):
            if isinstance(vals, Raised):
                res.append((st2, vals))
            else:
                res.append((st2, vstr(L.fresh('fstr', L.Str))))
        return res

    def ev_Attribute(self, e, st):
        d = self.dotted(e)
        if d == 'asyncio.futures._FINISHED':
            return [(st, V('str', L.str_const('FINISHED')))]
        if d == 'asyncio.FIRST_COMPLETED':
            return [(st, V('str', L.str_const('FIRST_COMPLETED')))]
        res = []
        for st2, obj in self.ev(e.value, st):
            if isinstance(obj, Raised):
                res.append((st2, obj))
                continue
            if obj.kind not in ('ref', 'set', 'list'):
                raise Unsupported('attribute %s of %s value (line %d)' % (e.attr, obj.kind, e.lineno))
            f = self.fieldname(e.attr)
            if f not in L.FIELD_KINDS:
                raise Unsupported('read of unknown attribute %s (line %d)' % (e.attr, e.lineno))
            res.append((st2, V(L.FIELD_KINDS[f], st2.f(f, obj.t))))
        return res

    def ev_UnaryOp(self, e, st):
        res = []
        for st2, v in self.ev(e.operand, st):
            if isinstance(v, Raised):
                res.append((st2, v))
            elif isinstance(e.op, ast.Not):
                res.append((st2, vbool(z3.Not(self.to_bool(v, st2)))))
            elif isinstance(e.op, ast.USub) and v.kind in ('int', 'real'):
                res.append((st2, V(v.kind, -v.t)))
            else:
                raise Unsupported('unary op')
        return res

    def simple(self, e):
        """expression without side effects / forks: may be evaluated speculatively"""
        for n in ast.walk(e):
            if isinstance(n, (ast.Await, ast.Yield, ast.YieldFrom, ast.NamedExpr)):
                return False
            if isinstance(n, ast.Call):
                name = n.func.attr if isinstance(n.func, ast.Attribute) else getattr(n.func, 'id', None)
                c = None
                if isinstance(n.func, ast.Attribute):
                    cands = self.reg.candidates(name)
                    if not cands or not all(cc.pure is not None for cc in cands):
                        if name not in ('format',):
                            return False
                elif name not in ('len', 'isinstance', 'hasattr'):
                    return False
            if isinstance(n, ast.Subscript):
                return False
        return True

    def ev_BoolOp(self, e, st):
        is_and = isinstance(e.op, ast.And)
        acc = self.ev(e.values[0], st)
        for nxt_e in e.values[1:]:
            out = []
            for st1, a in acc:
                if isinstance(a, Raised):
                    out.append((st1, a))
                    continue
                ta = self.to_bool(a, st1)
                if self.simple(nxt_e):
                    rs = self.ev(nxt_e, st1)
                    assert len(rs) == 1 and not isinstance(rs[0][1], Raised)
                    b = rs[0][1]
                    if a.kind == 'bool' and b.kind == 'bool':
                        out.append((st1, vbool(z3.And(ta, b.t) if is_and else z3.Or(ta, b.t))))
                    else:
                        ra, rb = self.to_ref(a), self.to_ref(b)
                        out.append((st1, vref(z3.If(ta, rb, ra) if is_and else z3.If(ta, ra, rb))))
                else:
                    s_short = st1.copy()
                    s_short.assume(z3.Not(ta) if is_and else ta)
                    out.append((s_short, a))
                    s_long = st1
                    s_long.assume(ta if is_and else z3.Not(ta))
                    out.extend(self.ev(nxt_e, s_long))
            acc = out
        return acc

    def ev_IfExp(self, e, st):
        res = []
        for st1, c in self.ev(e.test, st):
            if isinstance(c, Raised):
                res.append((st1, c))
                continue
            tc = z3.simplify(self.to_bool(c, st1))
            if self.simple(e.body) and self.simple(e.orelse):
                a = self.ev(e.body, st1)[0][1]
                b = self.ev(e.orelse, st1)[0][1]
                if a.kind == b.kind and a.kind in L.KIND_SORT:
                    res.append((st1, V(a.kind, z3.If(tc, a.t, b.t))))
                else:
                    res.append((st1, vref(z3.If(tc, self.to_ref(a), self.to_ref(b)))))
            else:
                s1 = st1.copy()
                s1.assume(tc)
                res.extend(self.ev(e.body, s1))
                st1.assume(z3.Not(tc))
                res.extend(self.ev(e.orelse, st1))
        return res

    def ev_Compare(self, e, st):
        if len(e.ops) != 1:
            raise Unsupported('chained comparison')
        op = e.ops[0]
        res = []
        for st2, vals in self.ev_many([e.left, e.comparators[0]], st):
            if isinstance(vals, Raised):
                res.append((st2, vals))
                continue
            a, b = vals
            res.append((st2, vbool(self.compare(op, a, b, st2))))
        return res

    def compare(self, op, a, b, st):
        on = type(op).__name__
        if on in ('In', 'NotIn'):
            if b.kind == 'set':
                t = st.mem(b.t, self.to_ref(a))
            elif b.kind in ('list', 'tuple', 'pset'):
                t = z3.Select(self.as_setvalue(b, st), self.to_ref(a))
            else:
                raise Unsupported('membership in %s' % b.kind)
            return t if on == 'In' else z3.Not(t)
        num = {'int', 'real'}
        if a.kind in num and b.kind in num:
            x = a.t if a.kind == b.kind else self.coerce(a, 'real', st)
            y = b.t if a.kind == b.kind else self.coerce(b, 'real', st)
            return {'Eq': x == y, 'NotEq': x != y, 'Lt': x < y, 'LtE': x <= y, 'Gt': x > y,
                    'GtE': x >= y, 'Is': x == y, 'IsNot': x != y}[on]
        if on in ('Is', 'Eq'):
            if a.kind == 'bool' and b.kind == 'bool':
                return a.t == b.t
            if a.kind == 'str' and b.kind == 'str':
                return a.t == b.t
            return self.to_ref(a) == self.to_ref(b)
        if on in ('IsNot', 'NotEq'):
            if a.kind == 'bool' and b.kind == 'bool':
                return a.t != b.t
            if a.kind == 'str' and b.kind == 'str':
                return a.t != b.t
            return self.to_ref(a) != self.to_ref(b)
        if on in ('Lt', 'LtE', 'Gt', 'GtE'):
            x = self.coerce(a, 'real', st)
            y = self.coerce(b, 'real', st)
            return {'Lt': x < y, 'LtE': x <= y, 'Gt': x > y, 'GtE': x >= y}[on]
        raise Unsupported('comparison %s' % on)

    def ev_BinOp(self, e, st):
        res = []
        on = type(e.op).__name__
        for st2, vals in self.ev_many([e.left, e.right], st):
            if isinstance(vals, Raised):
                res.append((st2, vals))
                continue
            a, b = vals
            if a.kind == 'str' or b.kind == 'str':
                res.append((st2, vstr(L.fresh('str', L.Str))))
            elif a.kind in ('int', 'real') and b.kind in ('int', 'real'):
                res.append((st2, self.arith(on, a, b, st2)))
            elif a.kind in ('int', 'real', 'ref') and b.kind in ('int', 'real', 'ref') and on in ('Add', 'Sub'):
                res.append((st2, self.arith(on, a, b, st2)))
            elif a.kind == 'set' and b.kind in ('set', 'pset') and on in ('BitAnd', 'BitOr', 'Sub'):
                A = st2.elems(a.t)
                Bv = self.as_setvalue(b, st2)
                if on == 'BitAnd':
                    C = L.setdef(st2, lambda x: z3.And(z3.Select(A, x), z3.Select(Bv, x)), 'inter')
                elif on == 'BitOr':
                    C = L.setdef(st2, lambda x: z3.Or(z3.Select(A, x), z3.Select(Bv, x)), 'union')
                else:
                    C = L.setdef(st2, lambda x: z3.And(z3.Select(A, x), z3.Not(z3.Select(Bv, x))), 'diff')
                r = st2.alloc_set(C)
                res.append((st2, vset(r)))
            elif a.kind == 'list' and b.kind == 'list' and on == 'Add':
                r = st2.alloc_list()
                st2.heap['$llen'] = z3.Store(st2.H('$llen'), r, z3.IntVal(0))
                self.list_extend(r, a, st2)
                self.list_extend(r, b, st2)
                res.append((st2, vlist(r)))
            else:
                raise Unsupported('binary %s on %s,%s (line %d)' % (on, a.kind, b.kind, e.lineno))
        return res

    def ev_Tuple(self, e, st):
        res = []
        for st2, vals in self.ev_many(e.elts, st):
            res.append((st2, vals if isinstance(vals, Raised) else V('tuple', None, vals)))
        return res

    def ev_List(self, e, st):
        res = []
        for st2, vals in self.ev_many(e.elts, st):
            if isinstance(vals, Raised):
                res.append((st2, vals))
                continue
            res.append((st2, vlist(self.make_list(vals, st2))))
        return res

    def make_list(self, vals, st, cls='list'):
        r = st.alloc_list(cls=cls)
        arr = L.fresh('lat', L.SeqV)
        for i, v in enumerate(vals):
            st.assume(z3.Select(arr, i) == self.to_ref(v))
        st.heap['$lat'] = z3.Store(st.H('$lat'), r, arr)
        st.heap['$llen'] = z3.Store(st.H('$llen'), r, z3.IntVal(len(vals)))
        return r

    def ev_Set(self, e, st):
        res = []
        for st2, vals in self.ev_many(e.elts, st):
            if isinstance(vals, Raised):
                res.append((st2, vals))
                continue
            cont = L.EMPTY
            for v in vals:
                cont = z3.Store(cont, self.to_ref(v), True)
            res.append((st2, vset(st2.alloc_set(cont))))
        return res

    def ev_Subscript(self, e, st):
        res = []
        if isinstance(e.slice, ast.Slice):
            return self.ev_slice(e, st)
        for st2, vals in self.ev_many([e.value, e.slice], st):
            if isinstance(vals, Raised):
                res.append((st2, vals))
                continue
            base, idx = vals
            if base.kind != 'list' or idx.kind != 'int':
                raise Unsupported('subscript on %s' % base.kind)
            n = st2.llen(base.t)
            i = z3.simplify(z3.If(idx.t < 0, n + idx.t, idx.t))
            ok = z3.And(0 <= i, i < n)
            bad = st2.copy()
            bad.assume(z3.Not(ok))
            bad.trace.append('L%d:IndexError' % e.lineno)
            res.append((bad, Raised('IndexError', bad.alloc('exc', 'IndexError'))))
            st2.assume(ok)
            res.append((st2, vref(st2.lat(base.t, i))))
        return res

    def ev_slice(self, e, st):
        """X[1:] and X[-1:] of a list: a fresh list"""
        sl = e.slice
        if not (sl.upper is None and sl.step is None and sl.lower is not None):
            raise Unsupported('slice shape (line %d)' % e.lineno)
        res = []
        for st2, vals in self.ev_many([e.value, sl.lower], st):
            if isinstance(vals, Raised):
                res.append((st2, vals))
                continue
            base, lo = vals
            if base.kind != 'list' or lo.kind != 'int':
                raise Unsupported('slice of %s' % base.kind)
            n = st2.llen(base.t)
            st2.assume(n >= 0)
            start = z3.If(lo.t < 0, z3.If(n + lo.t < 0, 0, n + lo.t), z3.If(lo.t > n, n, lo.t))
            r = st2.alloc_list()
            old = z3.Select(st2.H('$lat'), base.t)
            new = L.fresh('lat', L.SeqV)
            i = L.fresh('i', L.I)
            st2.assume(L.FA([i], z3.Select(new, i) == z3.Select(old, start + i), patterns=[z3.Select(new, i)]))
            st2.heap['$lat'] = z3.Store(st2.H('$lat'), r, new)
            st2.heap['$llen'] = z3.Store(st2.H('$llen'), r, n - start)
            res.append((st2, vlist(r)))
        return res

    def ev_Await(self, e, st):
        if isinstance(e.value, ast.Call):
            return self.ev(e.value, st, awaited=True)
        # `await <object>`: an awaitable the package did not create (the coroutine object a Job was given).
        # Environment contract `$await`: it suspends, returns some object or raises some exception
        from .calls import run_contract
        c = self.reg.get('$await')
        if c is None:
            raise Unsupported('await of a non-call expression (line %d)' % e.lineno)
        res = []
        for st2, v in self.ev(e.value, st):
            if isinstance(v, Raised):
                res.append((st2, v))
                continue
            res.extend(run_contract(self, c, {'obj': self.to_ref(v)}, st2, e))
        return res

    def ev_SetComp(self, e, st):
        return self.comprehension(e, st, 'set')

    def ev_ListComp(self, e, st):
        return self.comprehension(e, st, 'list')

    def comprehension(self, e, st, outkind):
        if len(e.generators) != 1 or e.generators[0].is_async:
            raise Unsupported('comprehension shape')
        g = e.generators[0]
        if not isinstance(g.target, ast.Name) or not (isinstance(e.elt, ast.Name) and e.elt.id == g.target.id):
            raise Unsupported('comprehension with non-identity element (line %d)' % e.lineno)
        for cond in g.ifs:
            if not self.simple(cond):
                raise Unsupported('comprehension condition with effects (line %d)' % e.lineno)
        res = []
        for st2, itv in self.ev(g.iter, st):
            if isinstance(itv, Raised):
                res.append((st2, itv))
                continue
            S = self.as_setvalue(itv, st2)

            def pred(x, st2=st2, S=S):
                saved = st2.env.get(g.target.id)
                st2.env[g.target.id] = vref(x)
                conds = [z3.Select(S, x)]
                for cond in g.ifs:
                    r = self.ev(cond, st2)
                    assert len(r) == 1
                    conds.append(self.to_bool(r[0][1], st2))
                if saved is None:
                    del st2.env[g.target.id]
                else:
                    st2.env[g.target.id] = saved
                return z3.And(conds)
            C = L.setdef(st2, pred, 'comp')
            if outkind == 'set':
                res.append((st2, vset(st2.alloc_set(C))))
            else:
                # a list holding exactly the elements of C, each once, in an arbitrary order
                r = st2.alloc_list()
                arr = L.fresh('lat', L.SeqV)
                n = L.fresh('len', L.I)
                i, j = L.fresh('i', L.I), L.fresh('i', L.I)
                x = L.fresh('x', L.Ref)
                posf = z3.Function(L.fresh_name('pos'), L.Ref, L.I)
                st2.assume(n >= 0, n == L.card(C), *L.card_facts(C))
                st2.assume(L.FA([i], z3.Implies(z3.And(0 <= i, i < n),
                                                     z3.And(z3.Select(C, z3.Select(arr, i)),
                                                            posf(z3.Select(arr, i)) == i)),
                                     patterns=[z3.Select(arr, i)]))
                st2.assume(L.FA([x], z3.Implies(z3.Select(C, x),
                                                     z3.And(0 <= posf(x), posf(x) < n,
                                                            z3.Select(arr, posf(x)) == x)),
                                     patterns=[z3.Select(C, x)]))
                st2.heap['$lat'] = z3.Store(st2.H('$lat'), r, arr)
                st2.heap['$llen'] = z3.Store(st2.H('$llen'), r, n)
                res.append((st2, vlist(r)))
        return res

    # ------------------------------------------------------------------ calls
    def ev_Call(self, e, st, awaited=False, yield_from=False):
        from .calls import eval_call
        return eval_call(self, e, st, awaited=awaited, yield_from=yield_from)
