"""
pyvc.logic -- sorts, symbolic values, heap and state used by the VC generator.

Encoding of Python semantics (DESIGN.md section 3.3):
  * objects are elements of the uninterpreted sort Ref; None/True/False are distinguished;
  * python ints are mathematical Ints, floats are Reals (rounding ignored);
  * the heap is one SMT array per attribute name, SSA-versioned by python dict replacement;
  * set and list objects are Refs whose contents live in the heap fields `$elems`
    (Ref -> (Ref -> Bool)), `$llen` (Ref -> Int), `$lat` (Ref -> (Int -> Ref));
  * allocation is tracked by `$alive`.
"""
import itertools
import z3

Ref = z3.DeclareSort('Ref')
Str = z3.DeclareSort('Str')
B = z3.BoolSort()
I = z3.IntSort()
R = z3.RealSort()
SetV = z3.ArraySort(Ref, B)          # a set *value* (characteristic function)
SeqV = z3.ArraySort(I, Ref)          # list contents

NONE = z3.Const('py_None', Ref)
TRUE = z3.Const('py_True', Ref)
FALSE = z3.Const('py_False', Ref)

truthy = z3.Function('truthy', Ref, B)
card = z3.Function('card', SetV, I)
# numbers boxed as objects (timeout, jobs_window, ...)
is_num = z3.Function('is_num', Ref, B)
numval = z3.Function('numval', Ref, R)
box_num = z3.Function('box_num', R, Ref)
# strings boxed as objects
is_str = z3.Function('is_str', Ref, B)
strval = z3.Function('strval', Ref, Str)
box_str = z3.Function('box_str', Str, Ref)
str_truthy = z3.Function('str_truthy', Str, B)

EMPTY = z3.K(Ref, False)
aslist_len = z3.Function('aslist_len', Ref, I)        # what list(x) yields for an arbitrary iterable x
aslist_items = z3.Function('aslist_items', Ref, SeqV)
rank = z3.Function('rank', Ref, I)                    # nesting rank of a (finitely nested) argument structure
nonempty = z3.Function('nonempty', SetV, B)     # named so that equal set values are equi-nonempty by congruence


def ne_facts(A):
    x = fresh('x', Ref)
    return [nonempty(A) == z3.Exists([x], z3.Select(A, x))]


def _has_ite(t):
    todo = [t]
    seen = set()
    while todo:
        a = todo.pop()
        if a.get_id() in seen:
            continue
        seen.add(a.get_id())
        if z3.is_app(a):
            if a.decl().kind() == z3.Z3_OP_ITE:
                return True
            todo.extend(a.children())
    return False


def _mentions(t, ids):
    todo, seen = [t], set()
    while todo:
        a = todo.pop()
        if a.get_id() in seen:
            continue
        seen.add(a.get_id())
        if a.get_id() in ids:
            return True
        if z3.is_app(a):
            todo.extend(a.children())
    return False


def FA(vs, body, patterns=None, **kw):
    """ForAll that drops the patterns z3 refuses (e.g. a heap term containing an if-then-else, or a pattern
    that mentions none of the bound variables, as happens when a ghost predicate is a constant)"""
    if patterns:
        vl = vs if isinstance(vs, (list, tuple)) else [vs]
        ids = {v.get_id() for v in vl}
        patterns = [p_ for p_ in patterns
                    if not _has_ite(p_) and (isinstance(p_, z3.PatternRef) or _mentions(p_, ids))]
    if patterns:
        try:
            return z3.ForAll(vs, body, patterns=patterns, **kw)
        except z3.Z3Exception:
            good = []
            for p_ in patterns:
                try:
                    z3.ForAll(vs, body, patterns=[p_])
                    good.append(p_)
                except z3.Z3Exception:
                    pass
            if good:
                return z3.ForAll(vs, body, patterns=good, **kw)
    return z3.ForAll(vs, body, **kw)


def box_num_facts(r):
    b = box_num(r)
    return [is_num(b), numval(b) == r]


def box_str_facts(sv):
    b = box_str(sv)
    return [is_str(b), strval(b) == sv, truthy(b) == str_truthy(sv)]

_counter = itertools.count()


def fresh(prefix, sort):
    return z3.Const('%s!%d' % (prefix, next(_counter)), sort)


def fresh_name(prefix):
    return '%s!%d' % (prefix, next(_counter))


# ----------------------------------------------------------------------------- classes
CLASSES = ['AbstractJob', 'Job', 'PureScheduler', 'Scheduler', 'Sequence', 'Task',
           'set', 'list', 'tuple', 'Window', 'Queue', 'DotStyle', 'Exception',
           'ValueError', 'KeyError', 'TimeoutError', 'CancelledError', 'IndexError',
           'RuntimeError']
isa = {c: z3.Function('isa_' + c, Ref, B) for c in CLASSES}

# python subclass relation among the classes above (child -> parents)
PARENTS = {
    'Job': ['AbstractJob'],
    'Scheduler': ['PureScheduler', 'AbstractJob'],
    'ValueError': ['Exception'], 'KeyError': ['Exception'], 'TimeoutError': ['Exception'],
    'IndexError': ['Exception'], 'RuntimeError': ['Exception'],
    # CancelledError derives from BaseException (python >= 3.8): NOT an Exception
}
# "kinds" of objects that exclude one another
DISJOINT_GROUPS = [
    ['AbstractJob', 'Sequence', 'Task', 'set', 'list', 'tuple', 'Window', 'Queue',
     'DotStyle', 'Exception', 'CancelledError'],
    ['PureScheduler', 'Sequence', 'Task', 'set', 'list', 'tuple', 'Window', 'Queue',
     'DotStyle', 'Exception', 'CancelledError'],
    ['ValueError', 'KeyError', 'TimeoutError', 'IndexError', 'RuntimeError'],
]


def subclasses_closure(c):
    out = {c}
    todo = [c]
    while todo:
        k = todo.pop()
        for ch, ps in PARENTS.items():
            if k in ps and ch not in out:
                out.add(ch)
                todo.append(ch)
    return out


def background_axioms():
    """Axioms true in every state: class lattice, constants, boxing."""
    x = z3.Const('bg_x', Ref)
    r = z3.Const('bg_r', R)
    s = z3.Const('bg_s', Str)
    ax = []
    ax.append(z3.Distinct(NONE, TRUE, FALSE))
    A_ = z3.Const('bg_A', SetV)
    ax.append(z3.ForAll([A_], nonempty(A_) == z3.Exists([x], z3.Select(A_, x)), patterns=[nonempty(A_)]))
    ax += [z3.Not(truthy(NONE)), z3.Not(truthy(FALSE)), truthy(TRUE)]
    for ch, ps in PARENTS.items():
        for p in ps:
            ax.append(FA([x], z3.Implies(isa[ch](x), isa[p](x)),
                                patterns=[isa[ch](x)]))
    # A-SUB: an object that is both a PureScheduler and an AbstractJob is a Scheduler
    ax.append(FA([x], z3.Implies(z3.And(isa['PureScheduler'](x), isa['AbstractJob'](x)),
                                        isa['Scheduler'](x)),
                        patterns=[z3.MultiPattern(isa['PureScheduler'](x), isa['AbstractJob'](x))]))
    for grp in DISJOINT_GROUPS:
        for a, b in itertools.combinations(grp, 2):
            ax.append(FA([x], z3.Not(z3.And(isa[a](x), isa[b](x))),
                                patterns=[z3.MultiPattern(isa[a](x), isa[b](x))]))
    for c in CLASSES:
        for k in (NONE, TRUE, FALSE):
            ax.append(z3.Not(isa[c](k)))
    for k in (NONE, TRUE, FALSE):
        ax.append(z3.Not(is_num(k)))
        ax.append(z3.Not(is_str(k)))
    # boxing: no global axioms (box_num injective on the reals would force infinite models and
    # defeat counter-model search); instance facts are added where a value is boxed (box_facts)
    for c in CLASSES:
        ax.append(FA([x], z3.Not(z3.And(is_num(x), isa[c](x))),
                            patterns=[z3.MultiPattern(is_num(x), isa[c](x))]))
        ax.append(FA([x], z3.Not(z3.And(is_str(x), isa[c](x))),
                            patterns=[z3.MultiPattern(is_str(x), isa[c](x))]))
    ax.append(FA([x], z3.Not(z3.And(is_num(x), is_str(x))),
                        patterns=[z3.MultiPattern(is_num(x), is_str(x))]))
    ax.append(FA([x], z3.Implies(is_num(x), truthy(x) == (numval(x) != 0)),
                        patterns=[is_num(x)]))
    # A-EXC-TRUTHY: exception objects are truthy
    ax.append(FA([x], z3.Implies(isa['Exception'](x), truthy(x)),
                        patterns=[isa['Exception'](x)]))
    ax.append(FA([x], z3.Implies(isa['CancelledError'](x), truthy(x)),
                        patterns=[isa['CancelledError'](x)]))
    return ax


# ----------------------------------------------------------------------------- fields
# kind of each attribute the verified code reads or writes.
#   ref : arbitrary object (None/True/False included)   bool: python bool
#   set / list : reference to a container object         int / real / str
FIELD_KINDS = {
    # AbstractJob
    'required': 'set', '_s_successors': 'set', '_s_mark': 'ref', '_task': 'ref',
    '_running': 'bool', 'forever': 'bool', 'critical': 'bool', '_sched_id': 'ref',
    'label': 'ref',
    # PureScheduler
    'jobs': 'set', 'jobs_window': 'ref', 'timeout': 'ref', 'shutdown_timeout': 'ref',
    'verbose': 'bool', 'watch': 'ref', '_failed_critical': 'ref', '_failed_timeout': 'ref',
    '_expiration': 'ref', '_did_shutdown': 'bool',
    # Sequence  (its `jobs` attribute is a list: renamed by the per-function field map)
    'seqjobs': 'list', 'scheduler': 'ref',
    # Window
    'queue': 'ref',
    # asyncio.Task private attributes read by the package (A-PRIVATE)
    '_job': 'ref', '_exception': 'ref', '_state': 'ref', '_result': 'ref',
    # Job
    'corun': 'ref', 'coshutdown': 'ref',
}
# container model + allocation
BUILTIN_FIELDS = {
    '$elems': z3.ArraySort(Ref, SetV),
    '$llen': z3.ArraySort(Ref, I),
    '$lat': z3.ArraySort(Ref, SeqV),
    '$alive': z3.ArraySort(Ref, B),
}
KIND_SORT = {'ref': Ref, 'bool': B, 'set': Ref, 'list': Ref, 'int': I, 'real': R, 'str': Str}

GHOST_FIELDS = {}   # name -> sort ; registered by contracts (spec.py)
# template.format(n) with exactly one integer argument: a deterministic function of (template, n)
FMT1 = z3.Function('FMT1', Str, I, Str)
# field -> (ghost field, fn(state, object, stored value V)): ghost update performed mechanically at every
# store of that attribute (e.g. $idnum := the integer formatted into _sched_id)
STORE_GHOST = {}


def register_ghost(name, sort):
    assert name.startswith('$')
    GHOST_FIELDS[name] = sort


def field_sort(name):
    if name in BUILTIN_FIELDS:
        return BUILTIN_FIELDS[name]
    if name in GHOST_FIELDS:
        return GHOST_FIELDS[name]
    return z3.ArraySort(Ref, KIND_SORT[FIELD_KINDS[name]])


def all_field_names():
    return list(FIELD_KINDS) + list(BUILTIN_FIELDS) + list(GHOST_FIELDS)


# ----------------------------------------------------------------------------- values
class V:
    """A symbolic python value: kind + z3 term (+ python-level payload)."""
    __slots__ = ('kind', 't', 'extra')

    def __init__(self, kind, t=None, extra=None):
        self.kind = kind
        self.t = t
        self.extra = extra

    def __repr__(self):
        return 'V(%s,%s%s)' % (self.kind, self.t, '' if self.extra is None else ',' + repr(self.extra))


def vref(t): return V('ref', t)
def vbool(t): return V('bool', t if z3.is_expr(t) else z3.BoolVal(bool(t)))
def vint(t): return V('int', t if z3.is_expr(t) else z3.IntVal(t))
def vreal(t): return V('real', t if z3.is_expr(t) else z3.RealVal(t))
def vset(t): return V('set', t)
def vlist(t): return V('list', t)
def vstr(t): return V('str', t)


VNONE = V('ref', NONE)

_str_consts = {}


def str_const(s):
    """A string literal: one constant per distinct literal, pairwise distinct."""
    if s not in _str_consts:
        _str_consts[s] = z3.Const('str_%d' % len(_str_consts), Str)
    return _str_consts[s]


def str_const_axioms():
    ax = []
    ks = list(_str_consts.items())
    if len(ks) > 1:
        ax.append(z3.Distinct(*[c for _, c in ks]))
    for s, c in ks:
        ax.append(str_truthy(c) if s else z3.Not(str_truthy(c)))
    return ax


class Unsupported(Exception):
    """The construct is outside the subset the generator handles: verdict UNDECIDED."""


class Env(dict):
    """local names of one path; a contract that names a local the code does not define here is a shape
    mismatch (verdict UNDECIDED), not a crash"""

    def __missing__(self, key):
        raise Unsupported('shape: the contract refers to local %r which the code does not define here' % (key,))


class State:
    """Symbolic state of one path."""

    def __init__(self):
        self.heap = {}      # field name -> array term
        self.env = Env()    # local name -> V
        self.pc = []        # assumptions (z3 Bool), in order
        self.g = {}         # ghost scalars: name -> z3 term
        self.trace = []     # human readable path description

    def copy(self):
        s = State()
        s.heap = dict(self.heap)
        s.env = Env(self.env)
        s.pc = list(self.pc)
        s.g = dict(self.g)
        s.trace = list(self.trace)
        return s

    # ---- heap access
    def H(self, field):
        if field not in self.heap:
            self.heap[field] = fresh('H_' + field.replace('$', 'g_'), field_sort(field))
        return self.heap[field]

    def f(self, field, obj):
        return z3.Select(self.H(field), obj)

    def setf(self, field, obj, val):
        self.heap[field] = z3.Store(self.H(field), obj, val)

    def havoc(self, field):
        self.heap[field] = fresh('H_' + field.replace('$', 'g_'), field_sort(field))

    def elems(self, setref):
        return z3.Select(self.H('$elems'), setref)

    def mem(self, setref, x):
        return z3.Select(self.elems(setref), x)

    def set_elems(self, setref, val):
        self.heap['$elems'] = z3.Store(self.H('$elems'), setref, val)

    def llen(self, l):
        return z3.Select(self.H('$llen'), l)

    def lat(self, l, i):
        return z3.Select(z3.Select(self.H('$lat'), l), i)

    def alive(self, x):
        return z3.Select(self.H('$alive'), x)

    def assume(self, *fs):
        for f_ in fs:
            if f_ is None:
                continue
            if isinstance(f_, (list, tuple)):
                self.assume(*f_)
            else:
                self.pc.append(f_)

    def alloc(self, prefix, cls=None):
        """Allocate a fresh object (not alive before, distinct from None/True/False)."""
        r = fresh(prefix, Ref)
        self.assume(z3.Not(self.alive(r)), r != NONE, r != TRUE, r != FALSE,
                    z3.Not(is_num(r)), z3.Not(is_str(r)))
        self.heap['$alive'] = z3.Store(self.H('$alive'), r, True)
        if cls is not None:
            for c in CLASSES:
                sup = c == cls or cls in subclasses_closure(c)
                if sup:
                    self.assume(isa[c](r))
                elif c not in subclasses_closure(cls):
                    # exact class: not an instance of unrelated classes nor of subclasses
                    self.assume(z3.Not(isa[c](r)))
        return r

    def alloc_set(self, contents=None, prefix='set'):
        r = self.alloc(prefix, 'set')
        self.set_elems(r, EMPTY if contents is None else contents)
        if '$setrole' in GHOST_FIELDS:
            # a fresh set object is not (yet) the required/_s_successors/jobs container of anything
            self.setf('$setrole', r, z3.IntVal(0))
        return r

    def alloc_list(self, prefix='list', cls='list'):
        r = self.alloc(prefix, cls)
        return r


SETDEFS = {}


def inst(A, x):
    """instance at x of the defining axiom of the definitional set A"""
    return z3.Select(A, x) == SETDEFS[A.get_id()](x)


def ext_at(A, Bs, x):
    """skolemised extensionality: x must be a fresh constant"""
    return z3.Or(A == Bs, z3.Select(A, x) != z3.Select(Bs, x))


def setdef(state_or_list, pred, prefix='S', triggers=None):
    """Definitional extension: a fresh set value A with  forall x. A[x] <-> pred(x).
    Sound by comprehension; the defining axiom is appended to the given assumption sink.
    triggers: optional fn(x) -> extra patterns (besides A[x]) that instantiate the definition."""
    A = fresh(prefix, SetV)
    x = fresh('x', Ref)
    SETDEFS[A.get_id()] = pred
    pats = [z3.Select(A, x)] + (list(triggers(x)) if triggers else [])
    ax = FA([x], z3.Select(A, x) == pred(x), patterns=pats)
    if isinstance(state_or_list, State):
        state_or_list.assume(ax)
    else:
        state_or_list.append(ax)
    return A


def card_facts(A):
    """K1 and K7 instances for the set value A."""
    x = fresh('x', Ref)
    return [card(A) >= 0,
            (card(A) == 0) == FA([x], z3.Not(z3.Select(A, x)), patterns=[z3.Select(A, x)])]


def subset(A, Bs):
    x = fresh('x', Ref)
    return FA([x], z3.Implies(z3.Select(A, x), z3.Select(Bs, x)), patterns=[z3.Select(A, x)])


def seteq(A, Bs):
    x = fresh('x', Ref)
    return FA([x], z3.Select(A, x) == z3.Select(Bs, x),
                     patterns=[z3.Select(A, x), z3.Select(Bs, x)])


# ---- the finite-cardinality lemma instances K1..K8 (DESIGN 5.3; Lean: lemmas/FinCard.lean)
def K2(A, x):
    return z3.Implies(z3.Not(z3.Select(A, x)), card(z3.Store(A, x, True)) == card(A) + 1)


def K2r(A, x):
    return z3.Implies(z3.Select(A, x), card(z3.Store(A, x, False)) == card(A) - 1)


def K3(A, Bs):
    return z3.Implies(subset(A, Bs), card(A) <= card(Bs))


def K4(A, Bs):
    return z3.Implies(z3.And(subset(A, Bs), card(Bs) <= card(A)), A == Bs)


def K5(A, Bs, U):
    """A, B disjoint and U = A u B  ==> card U = card A + card B"""
    x = fresh('x', Ref)
    disj = FA([x], z3.Not(z3.And(z3.Select(A, x), z3.Select(Bs, x))))
    y = fresh('x', Ref)
    un = FA([y], z3.Select(U, y) == z3.Or(z3.Select(A, y), z3.Select(Bs, y)))
    return z3.Implies(z3.And(disj, un), card(U) == card(A) + card(Bs))


def K8(A, Bs, f, g):
    """card_bij': f maps A into B, g maps B into A, mutually inverse ==> card A = card B"""
    a = fresh('x', Ref)
    b = fresh('x', Ref)
    h1 = FA([a], z3.Implies(z3.Select(A, a), z3.And(z3.Select(Bs, f(a)), g(f(a)) == a)))
    h2 = FA([b], z3.Implies(z3.Select(Bs, b), z3.And(z3.Select(A, g(b)), f(g(b)) == b)))
    return z3.Implies(z3.And(h1, h2), card(A) == card(Bs))


def K9(A, Bs, f, g):
    """pigeonhole: f maps A into B with left inverse g (so f is injective on A) and card A >= card B
    ==> f is onto B, i.e. every b in B has g(b) in A and f(g(b)) = b    (lemmas/FinCard.lean)"""
    a = fresh('x', Ref)
    b = fresh('x', Ref)
    h1 = z3.ForAll([a], z3.Implies(z3.Select(A, a), z3.And(z3.Select(Bs, f(a)), g(f(a)) == a)))
    concl = z3.ForAll([b], z3.Implies(z3.Select(Bs, b), z3.And(z3.Select(A, g(b)), f(g(b)) == b)))
    return z3.Implies(z3.And(h1, card(A) >= card(Bs)), concl)


def ext(A, Bs):
    """array extensionality instance: A = B or they differ somewhere"""
    x = fresh('x', Ref)
    return z3.Or(A == Bs, z3.Exists([x], z3.Select(A, x) != z3.Select(Bs, x)))


def K2ext(M, x, M2):
    """M2 = M u {x}, x not in M  ==>  card M2 = card M + 1   (K2 + extensionality)"""
    y = fresh('x', Ref)
    same = FA([y], z3.Select(M2, y) == z3.Or(z3.Select(M, y), y == x))
    return z3.Implies(z3.And(same, z3.Not(z3.Select(M, x))), card(M2) == card(M) + 1)


def Keq(A, Bs):
    """pointwise equal sets have equal cardinal"""
    y = fresh('x', Ref)
    return z3.Implies(FA([y], z3.Select(A, y) == z3.Select(Bs, y)), card(A) == card(Bs))


class Lemma:
    """an intermediate assertion: proved as its own obligation, then available as a hypothesis"""
    def __init__(self, name, formula):
        self.name = name
        self.formula = formula
