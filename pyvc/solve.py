"""
pyvc.solve -- discharge obligations in a process pool: z3 (API) first, cvc5 (CLI) takes z3's
unknowns.  Workers are forked, so the z3 terms built by the parent are read directly.
"""
import multiprocessing as mp
import os
import subprocess
import tempfile
import time
import z3
from . import logic as L

_OBLS = []
_BG = []
_CFG = {}

Z3_TIMEOUT_MS = int(os.environ.get('PYVC_Z3_TIMEOUT_MS', '20000'))
CVC5_TIMEOUT_MS = int(os.environ.get('PYVC_CVC5_TIMEOUT_MS', '30000'))
CVC5 = '/usr/bin/cvc5'


def _smt2(assumptions, goal=None):
    s = z3.Solver()
    for a in assumptions:
        s.add(a)
    if goal is not None:
        s.add(z3.Not(goal))
    return '(set-logic ALL)\n' + s.to_smt2()


def _cvc5(text, timeout_ms, finite=False):
    fd, path = tempfile.mkstemp(suffix='.smt2', prefix='pyvc_')
    try:
        with os.fdopen(fd, 'w') as fh:
            fh.write(text)
        cmd = [CVC5, '--tlimit=%d' % timeout_ms]
        if finite:
            cmd.append('--finite-model-find')
        cmd.append(path)
        t = time.time()
        try:
            p = subprocess.run(cmd, capture_output=True, text=True, timeout=timeout_ms / 1000 + 5)
            out = p.stdout.strip().split('\n')[0] if p.stdout.strip() else 'unknown'
        except subprocess.TimeoutExpired:
            out = 'unknown'
        if out not in ('sat', 'unsat', 'unknown'):
            out = 'unknown'
        return out, time.time() - t
    finally:
        try:
            os.unlink(path)
        except OSError:
            pass


def _z3_try(ob, timeout_ms, seed=0):
    s = z3.Solver()
    s.set('timeout', timeout_ms)
    if seed:
        s.set('random_seed', seed)
    for a in _BG:
        s.add(a)
    for a in ob.assumptions:
        s.add(a)
    s.add(z3.Not(ob.goal))
    t0 = time.time()
    r = s.check()
    return r, time.time() - t0, s


def _check_one(i):
    """portfolio: z3 quick -> z3 other seed -> cvc5 -> z3 longer seeds -> cvc5 finite-model-find (counter-models)"""
    ob = _OBLS[i]
    both = _CFG.get('both', False)
    res = {'name': ob.name, 'z3': None, 'z3_s': 0.0, 'cvc5': None, 'cvc5_s': 0.0,
           'model': None, 'reason': None}
    budget = _CFG.get('z3_timeout', Z3_TIMEOUT_MS)
    cbudget = _CFG.get('cvc5_timeout', CVC5_TIMEOUT_MS)
    quick = _CFG.get('z3_quick', int(os.environ.get('PYVC_Z3_QUICK_MS', '2000')))
    tz = 0.0
    r, s = z3.unknown, None
    for seed, tmo in ((0, quick), (2, 2 * quick), (7, 2 * quick)):
        r, t_, s = _z3_try(ob, tmo, seed=seed)
        tz += t_
        if r != z3.unknown:
            break
    res['z3'], res['z3_s'] = str(r), round(tz, 3)
    text = None
    if os.environ.get('PYVC_FAST') and r == z3.unknown:
        res['verdict'] = 'unknown'
        res['backend'] = None
        return res
    if r == z3.unknown or both:
        text = _smt2(_BG + ob.assumptions, ob.goal)
        c, tc = _cvc5(text, min(cbudget, 10000))
        res['cvc5'], res['cvc5_s'] = c, round(tc, 3)
    if r == z3.unknown and res['cvc5'] == 'unknown':
        for seed, tmo in ((3, budget // 3), (5, budget // 3), (7, budget)):
            r, t_, s = _z3_try(ob, max(2000, tmo), seed=seed)
            tz += t_
            if r != z3.unknown:
                break
        res['z3'], res['z3_s'] = str(r), round(tz, 3)
        if r == z3.unknown:
            res['reason'] = s.reason_unknown()
            c2, tc2 = _cvc5(text, cbudget)
            res['cvc5_s'] = round(res['cvc5_s'] + tc2, 3)
            if c2 in ('sat', 'unsat'):
                res['cvc5'] = c2
            else:
                c3, tc3 = _cvc5(text, min(10000, cbudget), finite=True)
                res['cvc5_s'] = round(res['cvc5_s'] + tc3, 3)
                if c3 == 'sat':
                    res['cvc5'] = 'sat'
    if r == z3.sat:
        try:
            res['model'] = _short_model(s.model())
        except Exception as exc:        # pragma: no cover
            res['model'] = 'model unavailable: %r' % exc
    v = 'unknown'
    answers = {res['z3'], res['cvc5']} - {None, 'unknown'}
    if answers == {'unsat'}:
        v = 'unsat'
    elif answers == {'sat'}:
        v = 'sat'
    elif answers == {'sat', 'unsat'}:
        v = 'disagree'
    res['verdict'] = v
    res['backend'] = 'z3' if res['z3'] in ('sat', 'unsat') else ('cvc5' if res['cvc5'] in ('sat', 'unsat') else None)
    return res


def _short_model(m, limit=6000):
    txt = []
    for d in m.decls():
        n = d.name()
        if n.startswith(('arg_', 'free_', 'it_', 'idx', 'res_', 'v_')):
            txt.append('%s = %s' % (n, m[d]))
    s = '\n'.join(txt)
    return s[:limit]


def _cover_one(i):
    cv = _OBLS[i]
    name, assumptions = cv[0], cv[1]
    pre = cv[2] if len(cv) > 2 else None

    def chk(assumps):
        s = z3.Solver()
        s.set('timeout', 3000)
        for a in _BG:
            s.add(a)
        for a in assumps:
            if isinstance(a, list):
                for a_ in a:
                    s.add(a_)
            else:
                s.add(a)
        return s.check()
    r = chk(assumptions)
    if r == z3.unsat and pre is not None:
        # a state after a call: vacuous only if the state before the call was reachable
        if chk(pre) == z3.unsat:
            return {'name': name, 'result': 'dead-path'}
    return {'name': name, 'result': str(r)}


def discharge(obls, both=False, jobs=None, z3_timeout=None, cvc5_timeout=None):
    global _OBLS, _BG, _CFG
    _OBLS = obls
    _BG = L.background_axioms() + L.str_const_axioms()
    _CFG = {'both': both}
    if z3_timeout:
        _CFG['z3_timeout'] = z3_timeout
    if cvc5_timeout:
        _CFG['cvc5_timeout'] = cvc5_timeout
    jobs = jobs or min(16, os.cpu_count() or 1)
    if not obls:
        return []
    ctx = mp.get_context('fork')
    with ctx.Pool(jobs) as pool:
        return pool.map(_check_one, range(len(obls)), chunksize=1)


def check_covers(covers, jobs=None):
    """vacuity guard: none of the assumption sets may be unsatisfiable"""
    global _OBLS, _BG
    _OBLS = covers
    _BG = L.background_axioms() + L.str_const_axioms()
    jobs = jobs or min(16, os.cpu_count() or 1)
    if not covers:
        return []
    ctx = mp.get_context('fork')
    with ctx.Pool(jobs) as pool:
        return pool.map(_cover_one, range(len(covers)), chunksize=1)
