#!/bin/bash
# offline setup: check the tools the checks need; nothing is downloaded
set -e
cd "$(dirname "$0")"
command -v python3-vt >/dev/null
python3-vt -c "import z3; assert z3.get_version_string().startswith('5.')"
test -x /usr/bin/cvc5
test -x /venv/bin/python
mkdir -p evidence replays
echo "setup ok"
